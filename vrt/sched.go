package vrt

import (
	"fmt"
	"runtime/debug"
	"sync/atomic"
)

// A cooperative scheduler for stateless exploration of thread interleavings.
//
// Harness threads are goroutines; exactly one of them runs at any moment.  A
// thread gives up control only at a Point (placed by the instrumentation
// before every lock, wait, flock, page read/write and goroutine spawn, and by
// the harness at its own seams).  A Point carries an optional enabledness
// predicate; a thread whose predicate is false is blocked.  At every Point the
// scheduler consults the choice sequence being replayed (prefix), and after
// the prefix always takes choice 0 of the canonical order: the thread that
// was running first if it is still enabled, then ascending thread ids.

type Sched struct {
	threads []*thread
	cur     *thread
	yield   chan struct{}
	prefix  []int
	Trace   []PointRec
	Choices []int
	maxPts  int
	abort   bool
	// Outcome
	Deadlock bool
	Horizon  bool
	Diverged string // non-empty: a prefix choice was out of range (hard harness error)
	Panics   []string
	// StateKey, when set, is called at every decision to contribute to pruning (optional).
	Log []string
}

type PointRec struct {
	Running        int // id of the thread that yielded (-1 at start / after exit)
	Kind           string
	Enabled        []int // canonical order
	Chosen         int   // index into Enabled
	RunningEnabled bool
}

type thread struct {
	id      int
	wake    chan struct{}
	enabled func() bool
	kind    string
	done    bool
	started bool
	body    func()
}

type abortSentinel struct{}

var active atomic.Pointer[Sched]

// Active reports whether a scheduler is installed.
func Active() bool { return active.Load() != nil }

func (s *Sched) managed() bool { return s.cur != nil }

// Point yields to the scheduler.  enabled may be nil (always enabled).
func (s *Sched) Point(kind string, enabled func() bool) {
	t := s.cur
	if t == nil {
		return
	}
	if s.abort {
		panic(abortSentinel{})
	}
	t.enabled = enabled
	t.kind = kind
	s.yield <- struct{}{}
	<-t.wake
	if s.abort {
		panic(abortSentinel{})
	}
	t.enabled = nil
}

// Point is the package-level form used by the shims: a no-op without scheduler.
func Point(kind string, enabled func() bool) {
	if s := active.Load(); s != nil && s.managed() {
		s.Point(kind, enabled)
	}
}

// CurrentThread returns the id of the running managed thread, or -1.
func CurrentThread() int {
	if s := active.Load(); s != nil && s.cur != nil {
		return s.cur.id
	}
	return -1
}

// Step returns the number of scheduling decisions taken so far (a logical clock).
func Step() int {
	if s := active.Load(); s != nil {
		return len(s.Trace)
	}
	return 0
}

// Go replaces `go func(){...}()` in the instrumented packages.
func Go(f func()) {
	s := active.Load()
	if s == nil || !s.managed() {
		go f()
		return
	}
	s.spawn(f)
	s.Point("spawn", nil)
}

func (s *Sched) spawn(f func()) *thread {
	t := &thread{id: len(s.threads), wake: make(chan struct{}), body: f}
	s.threads = append(s.threads, t)
	return t
}

func (s *Sched) startThread(t *thread) {
	t.started = true
	go func() {
		<-t.wake
		defer func() {
			if r := recover(); r != nil {
				if _, ok := r.(abortSentinel); !ok {
					s.Panics = append(s.Panics, fmt.Sprintf("thread %d: %v\n%s", t.id, r, debug.Stack()))
				}
			}
			t.done = true
			s.yield <- struct{}{}
		}()
		if s.abort {
			panic(abortSentinel{})
		}
		t.body()
	}()
}

// Run executes bodies as managed threads under the choice prefix and returns
// when all threads have finished, deadlocked, or the horizon was reached.
func Run(prefix []int, maxPoints int, bodies ...func()) *Sched {
	s := &Sched{yield: make(chan struct{}), prefix: prefix, maxPts: maxPoints}
	for _, b := range bodies {
		s.spawn(b)
	}
	if !active.CompareAndSwap(nil, s) {
		panic("vrt: scheduler already active")
	}
	defer active.Store(nil)
	last := -1
	for {
		// canonical enabled order
		var en []int
		runEn := false
		if last >= 0 {
			t := s.threads[last]
			if !t.done && (t.enabled == nil || t.enabled()) {
				en = append(en, last)
				runEn = true
			}
		}
		alive := 0
		for _, t := range s.threads {
			if t.done {
				continue
			}
			alive++
			if t.id == last {
				continue
			}
			if t.enabled == nil || t.enabled() {
				en = append(en, t.id)
			}
		}
		if alive == 0 {
			break
		}
		if len(en) == 0 {
			s.Deadlock = true
			s.killAll()
			break
		}
		if len(s.Trace) >= s.maxPts {
			s.Horizon = true
			s.killAll()
			break
		}
		i := len(s.Trace)
		c := 0
		if i < len(s.prefix) {
			c = s.prefix[i]
			if c < 0 || c >= len(en) {
				s.Diverged = fmt.Sprintf("prefix choice %d at point %d out of range (enabled %v)", c, i, en)
				s.killAll()
				break
			}
		}
		kind := ""
		if last >= 0 {
			kind = s.threads[last].kind
		}
		s.Trace = append(s.Trace, PointRec{Running: last, Kind: kind, Enabled: en, Chosen: c, RunningEnabled: runEn})
		s.Choices = append(s.Choices, c)
		t := s.threads[en[c]]
		s.cur = t
		if !t.started {
			s.startThread(t)
		}
		t.wake <- struct{}{}
		<-s.yield
		s.cur = nil
		last = t.id
		if t.done {
			last = -1
		}
	}
	s.cur = nil
	return s
}

// killAll unwinds every parked thread with a sentinel panic so that no goroutine leaks.
func (s *Sched) killAll() {
	s.abort = true
	for _, t := range s.threads {
		for !t.done {
			s.cur = t
			if !t.started {
				t.done = true
				break
			}
			t.wake <- struct{}{}
			<-s.yield
		}
	}
	s.cur = nil
}

// PreemptionsBefore counts preemptions among the first n recorded points.
func (s *Sched) PreemptionsBefore(n int) int {
	c := 0
	for i := 0; i < n && i < len(s.Trace); i++ {
		p := s.Trace[i]
		if p.RunningEnabled && p.Chosen != 0 {
			c++
		}
	}
	return c
}

// ExploreStats summarises an exploration.
type ExploreStats struct {
	Executions   int64
	Points       int64
	MaxPoints    int
	MaxPreempt   int
	Deadlocks    int64
	Horizons     int64
	Diverged     []string
	BoundReached bool // some alternative was cut by the preemption bound
	Stopped      bool // the stop callback ended the exploration early
}

// Explore enumerates, depth-first, every schedule of the execution `run` with
// at most `bound` preemptions (bound < 0: unbounded).  run must be
// deterministic given the prefix.  visit is called for every complete
// execution; it returns false to stop the exploration.
func Explore(bound int, run func(prefix []int) *Sched, visit func(*Sched) bool) ExploreStats {
	return ExploreSharded(bound, 0, 1, run, visit)
}

// ExploreSharded is Explore split over `of` cooperating processes.  The executions at depth 0 and 1 of the search
// tree (the root and the alternatives branching off it) are run by every process, because their traces are needed
// to enumerate the next level, but each is visited (judged, counted) by one owner only; every node at depth 2 is
// owned, together with its whole subtree, by one process (round robin over a deterministic numbering).
func ExploreSharded(bound, shard, of int, run func(prefix []int) *Sched, visit func(*Sched) bool) ExploreStats {
	const splitDepth = 2
	var st ExploreStats
	var counters [splitDepth + 1]int
	var rec func(prefix []int, depth int, mine bool) bool
	rec = func(prefix []int, depth int, mine bool) bool {
		x := run(prefix)
		if x.Diverged != "" {
			st.Diverged = append(st.Diverged, x.Diverged)
			return false
		}
		if mine {
			st.Executions++
			st.Points += int64(len(x.Trace))
			if len(x.Trace) > st.MaxPoints {
				st.MaxPoints = len(x.Trace)
			}
			if x.Deadlock {
				st.Deadlocks++
			}
			if x.Horizon {
				st.Horizons++
			}
			if p := x.PreemptionsBefore(len(x.Trace)); p > st.MaxPreempt {
				st.MaxPreempt = p
			}
			if !visit(x) {
				st.Stopped = true
				return false
			}
		}
		for i := len(prefix); i < len(x.Trace); i++ {
			p := x.Trace[i]
			cost := x.PreemptionsBefore(i)
			if p.RunningEnabled {
				cost++
			}
			if bound >= 0 && cost > bound {
				if len(p.Enabled) > 1 {
					st.BoundReached = true
				}
				continue
			}
			for alt := 1; alt < len(p.Enabled); alt++ {
				np := append(append([]int{}, x.Choices[:i]...), alt)
				cd := depth + 1
				switch {
				case of <= 1 || cd > splitDepth:
					if !rec(np, cd, true) {
						return false
					}
				case cd < splitDepth: // structural node: everyone runs it, one owner visits it
					counters[cd]++
					if !rec(np, cd, counters[cd]%of == shard) {
						return false
					}
				default: // cd == splitDepth: this node and its subtree belong to one process
					counters[cd]++
					if counters[cd]%of == shard {
						if !rec(np, cd, true) {
							return false
						}
					}
				}
			}
		}
		return true
	}
	rec(nil, 0, shard == 0 || of <= 1)
	return st
}

// Package vrand stands in for math/rand in the instrumented cmd package:
// every Intn is an environment answer decided by the harness.
package vrand

import (
	mrand "math/rand"

	"verif/vrt"
)

type Source = mrand.Source

func NewSource(seed int64) Source { return mrand.NewSource(seed) }

type Rand struct{ r *mrand.Rand }

func New(src Source) *Rand { return &Rand{r: mrand.New(src)} }

func (r *Rand) Intn(n int) int {
	if f := vrt.RandIntn; f != nil {
		v := f(n)
		if v < 0 || v >= n {
			panic("vrand: harness answer out of range")
		}
		return v
	}
	return r.r.Intn(n)
}
func (r *Rand) Int63() int64     { return r.r.Int63() }
func (r *Rand) Int() int         { return r.r.Int() }
func (r *Rand) Float64() float64 { return r.r.Float64() }
func (r *Rand) Int63n(n int64) int64 {
	if f := vrt.RandIntn; f != nil && n <= 1<<31 {
		return int64(f(int(n)))
	}
	return r.r.Int63n(n)
}
func (r *Rand) Int31n(n int32) int32 {
	if f := vrt.RandIntn; f != nil {
		return int32(f(int(n)))
	}
	return r.r.Int31n(n)
}

func Intn(n int) int {
	if f := vrt.RandIntn; f != nil {
		return f(n)
	}
	return mrand.Intn(n)
}
func Seed(s int64)     { mrand.Seed(s) }
func Int63() int64     { return mrand.Int63() }
func Float64() float64 { return mrand.Float64() }

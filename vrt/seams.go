// Package vrt holds the run-time seams that the instrumented build of
// hnakamur/whispertool calls instead of the real clock, page size, flock,
// randomness and goroutine/lock primitives.  With nothing installed every seam
// is a pass-through to the real primitive.
package vrt

import (
	"fmt"
	"os"
	"sync/atomic"
	"syscall"
	"time"
)

var clock atomic.Int64

// SetNow fixes the harness clock (unix seconds); 0 restores the real clock.
func SetNow(unix int64) { clock.Store(unix) }

// Now replaces time.Now in the instrumented packages.
func Now() time.Time {
	if v := clock.Load(); v != 0 {
		return time.Unix(v, 0)
	}
	return time.Now()
}

var pageSize atomic.Int64

// SetPagesize fixes the page size seen by whispertool.Open/Create; 0 = real.
func SetPagesize(n int) { pageSize.Store(int64(n)) }

// Getpagesize replaces os.Getpagesize in package whispertool.
func Getpagesize() int {
	if v := pageSize.Load(); v != 0 {
		return int(v)
	}
	return os.Getpagesize()
}

// FlockCalls counts calls that reached the flock seam (evidence that the rule matched at run time).
var FlockCalls atomic.Int64

// Flock replaces syscall.Flock in package whispertool.
func Flock(fd int, how int) error {
	FlockCalls.Add(1)
	if s := active.Load(); s != nil && s.managed() {
		if how&syscall.LOCK_NB == 0 && how&(syscall.LOCK_EX|syscall.LOCK_SH) != 0 {
			path := fmt.Sprintf("/proc/self/fd/%d", fd)
			s.Point("flock", func() bool { return flockProbe(path, how) })
		} else {
			s.Point("flock-nb", nil)
		}
	}
	return syscall.Flock(fd, how)
}

// flockProbe reports whether a flock(how) on a fresh open file description of
// path would succeed right now.  It has no lasting side effect: the probing
// description is closed at once.  Race-free because every other managed
// thread is parked while the scheduler evaluates it.
func flockProbe(path string, how int) bool {
	fd, err := syscall.Open(path, syscall.O_RDONLY|syscall.O_CLOEXEC, 0)
	if err != nil {
		return true // cannot probe: let the real call decide
	}
	defer syscall.Close(fd)
	err = syscall.Flock(fd, (how&(syscall.LOCK_EX|syscall.LOCK_SH))|syscall.LOCK_NB)
	if err == nil {
		syscall.Flock(fd, syscall.LOCK_UN)
		return true
	}
	return false
}

// ProbeLockFree reports whether path is currently free of any flock (exclusive probe).
func ProbeLockFree(path string) bool { return flockProbe(path, syscall.LOCK_EX) }

// IOPoint is inserted before the page buffer's vector reads and writes.
func IOPoint(kind string) {
	if s := active.Load(); s != nil && s.managed() {
		s.Point(kind, nil)
	}
}

// RandIntn, when set, answers math/rand Intn calls of the instrumented cmd package.
var RandIntn func(n int) int

// RandBytes, when set, answers crypto/rand.Read.
var RandBytes func(b []byte)

// Package vrt holds the run-time seams that the instrumented build of
// hnakamur/whispertool calls instead of the real clock, page size, flock,
// randomness and goroutine/lock primitives.  With nothing installed every seam
// is a pass-through to the real primitive.
package vrt

import (
	"fmt"
	"os"
	"sync"
	"sync/atomic"
	"syscall"
	"time"
)

var clock atomic.Int64

// SetNow fixes the harness clock (unix seconds); 0 restores the real clock.
func SetNow(unix int64) { clock.Store(unix) }

// Now replaces time.Now in the instrumented packages.
func Now() time.Time {
	if v := clock.Load(); v != 0 {
		return time.Unix(v, 0)
	}
	return time.Now()
}

var pageSize atomic.Int64

// SetPagesize fixes the page size seen by whispertool.Open/Create; 0 = real.
func SetPagesize(n int) { pageSize.Store(int64(n)) }

// Getpagesize replaces os.Getpagesize in package whispertool.
func Getpagesize() int {
	if v := pageSize.Load(); v != 0 {
		return int(v)
	}
	return os.Getpagesize()
}

// FlockCalls counts calls that reached the flock seam (evidence that the rule matched at run time).
var FlockCalls atomic.Int64

// lock log: which descriptors took a lock while logging was on (used to find handles a command left locked)
type lockEnt struct {
	fd       int
	dev, ino uint64
	path     string
}

var lockLog struct {
	mu   sync.Mutex
	on   bool
	ents []lockEnt
}

// BeginLockLog starts recording the descriptors on which a lock is taken.
func BeginLockLog() {
	lockLog.mu.Lock()
	lockLog.on, lockLog.ents = true, nil
	lockLog.mu.Unlock()
}

// EndLockLog stops recording and returns the paths of files that are STILL locked through a descriptor recorded
// since BeginLockLog (same descriptor number, still the same file, and an exclusive probe on a fresh description
// fails).  Such a lock is released (the descriptor is left alone) so that the caller can go on.
func EndLockLog() (leaked []string) {
	lockLog.mu.Lock()
	ents := lockLog.ents
	lockLog.on, lockLog.ents = false, nil
	lockLog.mu.Unlock()
	done := map[int]bool{}
	for _, e := range ents {
		if done[e.fd] {
			continue
		}
		done[e.fd] = true
		var st syscall.Stat_t
		if syscall.Fstat(e.fd, &st) != nil || st.Dev != e.dev || st.Ino != e.ino {
			continue // closed (or the number was reused for another file)
		}
		free := false
		for try := 0; try < 4 && !free; try++ {
			if try > 0 {
				time.Sleep(20 * time.Millisecond) // a handle being closed by a goroutine of its own is not a leak
				if syscall.Fstat(e.fd, &st) != nil || st.Dev != e.dev || st.Ino != e.ino {
					free = true
					break
				}
			}
			free = flockProbe(fmt.Sprintf("/proc/self/fd/%d", e.fd), syscall.LOCK_EX)
		}
		if !free {
			syscall.Flock(e.fd, syscall.LOCK_UN)
			leaked = append(leaked, e.path)
		}
	}
	return leaked
}

var onLock atomic.Pointer[func(path string)]
var inOnLock atomic.Bool

// SetOnLock installs (nil: removes) a function called before every lock acquisition that reaches the seam, with the
// path of the file about to be locked.  Acquisitions made by the function itself are not reported to it.
func SetOnLock(f func(path string)) {
	if f == nil {
		onLock.Store(nil)
	} else {
		onLock.Store(&f)
	}
}

// Flock replaces syscall.Flock in package whispertool.
func Flock(fd int, how int) error {
	FlockCalls.Add(1)
	if h := onLock.Load(); h != nil && how&(syscall.LOCK_EX|syscall.LOCK_SH) != 0 && inOnLock.CompareAndSwap(false, true) {
		p, _ := os.Readlink(fmt.Sprintf("/proc/self/fd/%d", fd))
		(*h)(p)
		inOnLock.Store(false)
	}
	if how&(syscall.LOCK_EX|syscall.LOCK_SH) != 0 {
		lockLog.mu.Lock()
		if lockLog.on {
			var st syscall.Stat_t
			if syscall.Fstat(fd, &st) == nil {
				p, _ := os.Readlink(fmt.Sprintf("/proc/self/fd/%d", fd))
				lockLog.ents = append(lockLog.ents, lockEnt{fd, st.Dev, st.Ino, p})
			}
		}
		lockLog.mu.Unlock()
	}
	if s := active.Load(); s != nil && s.managed() {
		if how&syscall.LOCK_NB == 0 && how&(syscall.LOCK_EX|syscall.LOCK_SH) != 0 {
			path := fmt.Sprintf("/proc/self/fd/%d", fd)
			s.Point("flock", func() bool { return flockProbe(path, how) })
		} else {
			s.Point("flock-nb", nil)
		}
	}
	return syscall.Flock(fd, how)
}

// flockProbe reports whether a flock(how) on a fresh open file description of
// path would succeed right now.  It has no lasting side effect: the probing
// description is closed at once.  Race-free because every other managed
// thread is parked while the scheduler evaluates it.
func flockProbe(path string, how int) bool {
	fd, err := syscall.Open(path, syscall.O_RDONLY|syscall.O_CLOEXEC, 0)
	if err != nil {
		return true // cannot probe: let the real call decide
	}
	defer syscall.Close(fd)
	err = syscall.Flock(fd, (how&(syscall.LOCK_EX|syscall.LOCK_SH))|syscall.LOCK_NB)
	if err == nil {
		syscall.Flock(fd, syscall.LOCK_UN)
		return true
	}
	return false
}

// ProbeLockFree reports whether path is currently free of any flock (exclusive probe).
func ProbeLockFree(path string) bool { return flockProbe(path, syscall.LOCK_EX) }

// IOPoint is inserted before the page buffer's vector reads and writes.
func IOPoint(kind string) {
	if s := active.Load(); s != nil && s.managed() {
		s.Point(kind, nil)
	}
}

// ProcStateCalls counts calls that reached one of the process-wide-state seams below.
var ProcStateCalls atomic.Int64

func procPoint(kind string) {
	ProcStateCalls.Add(1)
	if s := active.Load(); s != nil && s.managed() {
		s.Point(kind, nil)
	}
}

// Chdir, Setenv, Unsetenv and Umask replace the calls that change state shared by the whole process (working
// directory, environment, file mode mask): each is a scheduling point, so that the explorer can run another
// thread between such a change and the next one (usually the call that restores the old value).
func Chdir(dir string) error { procPoint("chdir"); return os.Chdir(dir) }

func Setenv(k, v string) error { procPoint("setenv"); return os.Setenv(k, v) }

func Unsetenv(k string) error { procPoint("setenv"); return os.Unsetenv(k) }

func Umask(m int) int { procPoint("umask"); return syscall.Umask(m) }

// RandIntn, when set, answers math/rand Intn calls of the instrumented cmd package.
var RandIntn func(n int) int

// RandBytes, when set, answers crypto/rand.Read.
var RandBytes func(b []byte)

// Package vsync stands in for package sync in the instrumented packages
// (whispertool, cmd, filebuffer, errgroup).  Under the cooperative scheduler
// Lock/Wait/Do are scheduling points with an enabledness predicate; without a
// scheduler every type is a thin wrapper around the real primitive, so the
// free-running race-detector pass sees the real synchronisation.
package vsync

import (
	"sync"

	"verif/vrt"
)

type (
	RWMutex = sync.RWMutex
	Cond    = sync.Cond
	Map     = sync.Map
	Pool    = sync.Pool
	Locker  = sync.Locker
)

func NewCond(l Locker) *Cond { return sync.NewCond(l) }

type Mutex struct {
	real   sync.Mutex
	locked bool // scheduler mode only
}

func (m *Mutex) Lock() {
	if vrt.CurrentThread() >= 0 {
		vrt.Point("lock", func() bool { return !m.locked })
		m.locked = true
		return
	}
	m.real.Lock()
}

func (m *Mutex) TryLock() bool {
	if vrt.CurrentThread() >= 0 {
		vrt.Point("trylock", nil)
		if m.locked {
			return false
		}
		m.locked = true
		return true
	}
	return m.real.TryLock()
}

func (m *Mutex) Unlock() {
	if vrt.CurrentThread() >= 0 {
		if !m.locked {
			panic("vsync: unlock of unlocked mutex")
		}
		m.locked = false
		return
	}
	m.real.Unlock()
}

type WaitGroup struct {
	real sync.WaitGroup
	n    int
}

func (w *WaitGroup) Add(d int) {
	if vrt.CurrentThread() >= 0 {
		w.n += d
		if w.n < 0 {
			panic("vsync: negative WaitGroup counter")
		}
		return
	}
	w.real.Add(d)
}

func (w *WaitGroup) Done() { w.Add(-1) }

func (w *WaitGroup) Wait() {
	if vrt.CurrentThread() >= 0 {
		vrt.Point("wait", func() bool { return w.n == 0 })
		return
	}
	w.real.Wait()
}

type Once struct {
	real    sync.Once
	done    bool
	running bool
}

func (o *Once) Do(f func()) {
	if vrt.CurrentThread() >= 0 {
		vrt.Point("once", func() bool { return !o.running })
		if o.done {
			return
		}
		o.running = true
		defer func() { o.running = false; o.done = true }()
		f()
		return
	}
	o.real.Do(f)
}

// Package vcrand stands in for crypto/rand in the instrumented cmd package.
package vcrand

import (
	crand "crypto/rand"

	"verif/vrt"
)

var Reader = crand.Reader

func Read(b []byte) (int, error) {
	if f := vrt.RandBytes; f != nil {
		f(b)
		return len(b), nil
	}
	return crand.Read(b)
}

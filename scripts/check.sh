#!/bin/bash
# usage: scripts/check.sh <ID> <quick|thorough>   |   scripts/check.sh replay <file>
# Instruments a copy of the current working tree of ${VERIF_REPO:-/repo} (the
# repository itself is not touched), builds the checker against it, runs it,
# and removes every scratch file.
set -u
VERIF=$(cd "$(dirname "$0")/.." && pwd)
cd "$VERIF"
export GOFLAGS=-mod=mod GOPROXY=off GOSUMDB=off GOTOOLCHAIN=local GODEBUG=goindex=0
export GOCACHE=${VERIF_GOCACHE:-$VERIF/.cache/go-build}
export VERIF_DIR=$VERIF
REPO=${VERIF_REPO:-/repo}
BASE=${TMPDIR:-/dev/shm}
[ -d "$BASE" ] && [ -w "$BASE" ] || BASE=/tmp
SCR=$(mktemp -d "$BASE/verif.XXXXXX")
trap 'rm -rf "$SCR"' EXIT
ID=${1:?property id}
ARG=${2:?tier or replay file}

inconclusive() {
  # infrastructure trouble is never a violation: say so, write minimal evidence, exit 0
  echo "INCONCLUSIVE: property=$ID $1"
  if [ "$ID" != replay ]; then
    OUT=${VERIF_OUT_DIR:-$VERIF}
    mkdir -p "$OUT/evidence"
    cat > "$OUT/evidence/$ID.json" <<JSON
{"property_id":"$ID","tier":"$ARG","seed":${VERIF_SEED:-1},"level":"other","wall_s":0,"violations":0,
 "coverage":{"explanation":"inconclusive: $1; nothing was explored","exhaustive":false,"evaluations":0,"distinct_nontrivial":0}}
JSON
  fi
  exit 0
}

MODFLAG=""
if [ "$REPO" != /repo ]; then
  cp go.mod "$SCR/go.mod"; cp go.sum "$SCR/go.sum"
  go mod edit -modfile="$SCR/go.mod" -replace "github.com/hnakamur/whispertool=$REPO" 
  MODFLAG="-modfile=$SCR/go.mod"
fi

VINSTR=$VERIF/.cache/bin/vinstr
if [ ! -x "$VINSTR" ] || [ "$VERIF/cmd/vinstr/main.go" -nt "$VINSTR" ]; then
  mkdir -p "$VERIF/.cache/bin"
  go build -o "$VINSTR" ./cmd/vinstr || inconclusive "could not build the instrumenter"
fi
FB=$(go list $MODFLAG -m -f '{{.Dir}}' github.com/hnakamur/filebuffer 2>/dev/null)
EG=$(go list $MODFLAG -m -f '{{.Dir}}' golang.org/x/sync 2>/dev/null)
"$VINSTR" -repo "$REPO" -out "$SCR/instr" -filebuffer "$FB" -errgroup "$EG/errgroup" || inconclusive "instrumenter failed on the current tree"
export VERIF_INSTR=$SCR/instr/instr.json

RACE=""
[ "${VERIF_RACE:-0}" = 1 ] && RACE="-race"
if ! go build $MODFLAG $RACE -tags verif -overlay "$SCR/instr/overlay.json" -o "$SCR/vcheck" ./cmd/vcheck 2> "$SCR/build.log"; then
  cat "$SCR/build.log" >&2
  if (cd "$REPO" && go build ./... ) 2>/dev/null; then
    inconclusive "the instrumented build failed although the repository builds"
  else
    inconclusive "the repository does not build"
  fi
fi
# the race-detector companion binary (same bodies, free running) for the schedule properties
if [ "$ID" = C13 ] || [ "$ID" = C17 ]; then
  if go build $MODFLAG -race -tags verif -overlay "$SCR/instr/overlay.json" -o "$SCR/vcheck-race" ./cmd/vcheck 2>> "$SCR/build.log"; then
    export VERIF_RACE_BIN=$SCR/vcheck-race
  fi
fi
export VERIF_SCRATCH=$SCR/run
mkdir -p "$VERIF_SCRATCH"
if [ "$ID" = replay ]; then
  "$SCR/vcheck" replay "$ARG"; exit $?
fi
"$SCR/vcheck" check "$ID" "$ARG"
exit $?

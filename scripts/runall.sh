#!/bin/bash
# usage: scripts/runall.sh [quick|thorough]  - every check once, against /repo; prints one line per check
TIER=${1:-quick}
cd "$(dirname "$0")/.."
rc=0
for id in $(python3 -c "import json;print(' '.join(c['property_id'] for c in json.load(open('MANIFEST.json'))['checks']))"); do
  out=$(scripts/check.sh $id $TIER 2>&1 | grep -E "^(VIOLATION|KNOWN-FINDING|INCONCLUSIVE|C[0-9]+ $TIER)" | cut -c1-220)
  echo "$out" | tail -3
  echo "$out" | grep -q "^VIOLATION" && rc=1
done
exit $rc

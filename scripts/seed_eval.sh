#!/bin/bash
# usage: scripts/seed_eval.sh <property id> <dir with patch.diff + demo> <name> [check ids...]
# Confirms a seeded change independently (compiles, pinned tests pass, demo fails with / passes without),
# then runs the property's quick check against the patched copy.  Keeps it under /verif/seeded/<name>/.
set -u
ID=$1; SRC=$(realpath "$2"); NAME=$3; shift 3
CHECKS=${*:-$ID}
export GOFLAGS=-mod=mod GOPROXY=off GOSUMDB=off GOTOOLCHAIN=local
D=$(mktemp -d /tmp/seed.XXXXXX)
trap 'rm -rf "$D"' EXIT
cp -r /repo "$D/repo"; rm -rf "$D/repo/.git"
cp -r /repo "$D/clean"; rm -rf "$D/clean/.git"
LOG=$D/log
place_demo() { # $1 = tree
  if [ -f "$SRC/demo_test.go" ]; then
    sub=$(head -1 "$SRC/demo_test.go" | sed -n 's#.*copy to: *\([^ ]*\).*#\1#p'); sub=${sub:-.}
    [ "$sub" = "repository" ] && sub=.
    mkdir -p "$1/$sub"; cp "$SRC/demo_test.go" "$1/$sub/zz_demo_test.go"; echo "$sub"
  else
    mkdir -p "$1/zzdemo"; cp -r "$SRC/demo/." "$1/zzdemo/"; echo zzdemo
  fi
}
run_demo() { # $1 = tree
  sub=$(place_demo "$1")
  # only the demonstration's own tests: the package's pinned tests include wall-clock flakes
  PAT=$(grep -o '^func Test[A-Za-z0-9_]*' "$SRC/demo_test.go" 2>/dev/null | sed 's/^func //' | paste -sd'|'); PAT="^(${PAT:-.})\$"
  if [ -f "$SRC/demo_test.go" ]; then (cd "$1/$sub" && go test -vet=off -count=1 -run "$PAT" . >"$LOG.demo" 2>&1)
  else (cd "$1/$sub" && go run . >"$LOG.demo" 2>&1); fi
  rc=$?; rm -rf "$1/$sub/zz_demo_test.go" "$1/zzdemo"; return $rc
}
(cd "$D/repo" && patch -p1 -s < "$SRC/patch.diff") || { echo "RESULT $NAME patch-failed"; exit 3; }
(cd "$D/repo" && go build ./... ) >"$LOG.build" 2>&1 || { echo "RESULT $NAME build-failed"; exit 3; }
if [ -n "${SEED_RECHECK:-}" ]; then # re-check mode: the change was confirmed before; only see that the checks still report it
  RES=""
  for CK in $CHECKS; do
    OUT=$(VERIF_OUT_DIR="$D/out" VERIF_REPO="$D/repo" /verif/scripts/check.sh "$CK" quick 2>&1 | grep -E "^(VIOLATION|KNOWN|INCONCL)|sig=" | cut -c1-200)
    if echo "$OUT" | grep -q "^VIOLATION property=$CK"; then RES="$RES $CK:caught"; elif echo "$OUT" | grep -q "^INCONCLUSIVE"; then RES="$RES $CK:INCONCLUSIVE"; else RES="$RES $CK:MISSED"; fi
  done
  echo "RECHECK $NAME$RES"; exit 0
fi
(cd "$D/repo" && go test -vet=off -count=1 ./... ) >"$LOG.tests" 2>&1 && T=pass || T=FAIL
if [ $T = FAIL ]; then # the pinned suite has wall-clock flakes (TestCreateUpdateFetch, compat tests at hour boundaries): one retry
  sleep 11; (cd "$D/repo" && go test -vet=off -count=1 ./... ) >"$LOG.tests" 2>&1 && T=pass || T=FAIL
fi
run_demo "$D/repo" && DW=pass || DW=fail
run_demo "$D/clean" && DC=pass || DC=fail
echo "CONFIRM $NAME tests-with-change=$T demo-with-change=$DW demo-on-clean=$DC"
ok=0; [ $T = pass ] && [ $DW = fail ] && [ $DC = pass ] && ok=1
RES=""
for CK in $CHECKS; do
  OUT=$(VERIF_OUT_DIR="$D/out" VERIF_REPO="$D/repo" /verif/scripts/check.sh "$CK" quick 2>&1 | grep -E "^(VIOLATION|KNOWN|INCONCL)|sig=" | cut -c1-200)
  if echo "$OUT" | grep -q "^VIOLATION property=$CK"; then RES="$RES $CK:caught"; elif echo "$OUT" | grep -q "^INCONCLUSIVE"; then RES="$RES $CK:INCONCLUSIVE"; else RES="$RES $CK:MISSED"; fi
  echo "$OUT" | grep "sig=" | head -4
done
echo "RESULT $NAME confirmed=$ok$RES"
if [ $ok = 1 ]; then
  mkdir -p /verif/seeded/$NAME
  cp "$SRC/patch.diff" /verif/seeded/$NAME/; [ -f "$SRC/demo_test.go" ] && cp "$SRC/demo_test.go" /verif/seeded/$NAME/; [ -d "$SRC/demo" ] && cp -r "$SRC/demo" /verif/seeded/$NAME/
  [ -f "$SRC/notes.md" ] && cp "$SRC/notes.md" /verif/seeded/$NAME/
  python3 - "$ID" "$NAME" "$T" "$DW" "$DC" "$RES" <<'PY'
import json,sys,os,re
pid,name,t,dw,dc,res=sys.argv[1:7]
notes=open(f'/verif/seeded/{name}/notes.md').read() if os.path.exists(f'/verif/seeded/{name}/notes.md') else ''
meta={'property':pid,'name':name,'needs_to_manifest':notes[:1500],'confirmed':{'builds':True,'pinned_tests_with_change':t,'demo_with_change':dw,'demo_on_clean_tree':dc},
 'ran':['go build ./...','go test -vet=off -count=1 ./... (with change)','demo with change','demo on clean tree']+[f'VERIF_REPO=<patched copy> scripts/check.sh {r.split(":")[0]} quick' for r in res.split()],
 'check_results':res.split()}
json.dump(meta,open(f'/verif/seeded/{name}/meta.json','w'),indent=1)
PY
fi

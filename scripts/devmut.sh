#!/bin/bash
# usage: scripts/devmut.sh <patch.diff> <check ids...>  - apply a patch to a scratch copy of /repo and run this tree's quick checks on it
P=$(realpath $1); shift
D=$(mktemp -d /tmp/devmut.XXXXXX); trap 'rm -rf "$D"' EXIT
cp -r /repo "$D/repo"; rm -rf "$D/repo/.git"
(cd "$D/repo" && patch -p1 -s < "$P") || { echo "patch-failed"; exit 3; }
V=$(cd "$(dirname "$0")/.." && pwd)
for CK in "$@"; do
  OUT=$(VERIF_GOCACHE=/verif/.cache/go-build VERIF_OUT_DIR="$D/out" VERIF_REPO="$D/repo" $V/scripts/check.sh "$CK" quick 2>&1 | grep -E "^(VIOLATION|KNOWN|INCONCL)|sig=|^C[0-9]+ quick" | cut -c1-220)
  echo "$OUT" | grep "sig=\|INCONCL" | head -5
  if echo "$OUT" | grep -q "^VIOLATION property=$CK"; then echo "$CK: caught"; else echo "$CK: MISSED"; fi
done

#!/bin/bash
# Offline setup: build the instrumenter and warm the Go build cache (normal and -race).
set -u
VERIF=$(cd "$(dirname "$0")/.." && pwd)
cd "$VERIF"
export GOFLAGS=-mod=mod GOPROXY=off GOSUMDB=off GOTOOLCHAIN=local GODEBUG=goindex=0
export GOCACHE=${VERIF_GOCACHE:-$VERIF/.cache/go-build}
mkdir -p .cache/bin evidence replays
go build -o .cache/bin/vinstr ./cmd/vinstr || exit 1
go build -o /dev/null ./cmd/vcheck || exit 1
go build -race -o /dev/null ./cmd/vcheck || exit 1
echo setup ok

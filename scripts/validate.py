#!/usr/bin/env python3-vt
import json, jsonschema, glob, sys
jsonschema.validate(json.load(open('/verif/MANIFEST.json')), json.load(open('/root/.vp/MANIFEST.schema.json')))
es = json.load(open('/root/.vp/EVIDENCE.schema.json'))
for f in sorted(glob.glob('/verif/evidence/*.json')):
    try:
        jsonschema.validate(json.load(open(f)), es); print('ok', f)
    except Exception as e:
        print('INVALID', f, str(e)[:300]); sys.exit(1)
print('manifest ok')

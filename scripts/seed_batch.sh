#!/bin/bash
# usage: scripts/seed_batch.sh <dir with <ID>/m1,m2> <first suffix number> [IDs...]  - evaluates every change against its property's check
DIR=$1; N=$2; shift 2
IDS=${*:-$(ls "$DIR")}
for id in $IDS; do
  for i in 1 2; do
    [ -d "$DIR/$id/m$i" ] || continue
    /verif/scripts/seed_eval.sh $id "$DIR/$id/m$i" "$id-s$((N+i-1))" $id 2>&1 | grep -v "error returned" | grep "CONFIRM\|RESULT\|sig=" | cut -c1-200
  done
done

#!/bin/bash
# usage: scripts/seed_recheck.sh [names...]  - applies every kept seeded change to a copy of the current /repo and runs the
# checks that meta.json records as having caught it; prints one RECHECK line per change (patch-failed = needs re-basing).
cd "$(dirname "$0")/.."
NAMES=${*:-$(ls seeded)}
for n in $NAMES; do
  [ -f seeded/$n/meta.json ] || continue
  id=$(python3 -c "import json;print(json.load(open('seeded/$n/meta.json'))['property'])")
  cks=$(python3 -c "import json;print(' '.join(sorted({r.split(':')[0] for r in json.load(open('seeded/$n/meta.json'))['check_results'] if 'caught' in r})))")
  [ -n "$cks" ] || { echo "RECHECK $n no-catching-check-recorded"; continue; }
  SEED_RECHECK=1 scripts/seed_eval.sh $id seeded/$n $n $cks 2>&1 | grep "RECHECK\|RESULT"
done

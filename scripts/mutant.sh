#!/bin/bash
# usage: scripts/mutant.sh <patch file> <ID> [tier]   - applies the patch to a scratch copy of /repo,
# runs the pinned tests of the touched module and the property's check against the copy.
set -u
P=$(realpath "$1"); ID=$2; TIER=${3:-quick}
D=$(mktemp -d /tmp/mut.XXXXXX)
trap 'rm -rf "$D"' EXIT
cp -r /repo "$D/repo"; rm -rf "$D/repo/.git"
(cd "$D/repo" && patch -p1 -s < "$P") || { echo "PATCH-FAILED $P"; exit 3; }
export GOFLAGS=-mod=mod GOPROXY=off GOSUMDB=off GOTOOLCHAIN=local
if [ "${SKIP_TESTS:-0}" != 1 ]; then
  (cd "$D/repo" && go build ./... && go test -vet=off -count=1 ./... >"$D/test.log" 2>&1) && echo "TESTS-PASS" || { echo "TESTS-FAIL"; tail -5 "$D/test.log"; }
fi
VERIF_OUT_DIR="$D/out" VERIF_REPO="$D/repo" /verif/scripts/check.sh "$ID" "$TIER" 2>&1 | grep -E "^(VIOLATION|KNOWN|INCONCL|C[0-9]+ )|sig=" | cut -c1-300 | head -${LINES_MAX:-12}

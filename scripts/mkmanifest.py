#!/usr/bin/env python3
# Regenerates MANIFEST.json from the table below (kept valid at all times).
import json, os
V = os.path.dirname(os.path.dirname(os.path.abspath(__file__)))
props = [json.loads(l) for l in open(os.path.join(V, 'properties.jsonl'))]
# id -> (category, engine, technique, level text, level note, design ref)
T = {
 'C04': ('model_checking', 'seqmc', 'explicit-state enumeration: every (layout, content class, clock) state x every archive id x every window of the sweep is fetched through the real library and compared with a shape function written from the statement',
         'Complete product of 10 layouts (quick; +all small layouts thorough) x 3 content classes x clock phases in 3 eras x 3 page sizes x all archive ids x all windows over the instants around the retention; ~1e7 real fetches each compared with the reference shape, plus reference-free content independence. Every best-archive window also through the clock-reading wrapper Fetch (same shape). Layout L11 with steps 7 s / 35 s.',
         'trusted: model.FetchShape (30 lines, written from the statement), tmpfs, Go runtime. Bounds: k<=4 archives, <=16 slots (+ the multi-page layout LP), windows over instants within Rmax+2 of now plus 0/1/2^32-1.', '6 C04'),
}
T.update(json.load(open(os.path.join(V, 'scripts', 'manifest_table.json'))) if os.path.exists(os.path.join(V, 'scripts', 'manifest_table.json')) else {})
engines = {
 'seqmc': ('props/enga.go', 'explicit-state exploration of the library: transition function = real code on a tmpfs file, reference model + independent format parser'),
 'cmdmc': ('props/engb.go', 'world enumeration for CLI commands and the HTTP server, files written by the independent encoder'),
 'sched': ('vrt/sched.go', 'hand-written cooperative scheduler, preemption-bounded DFS over real goroutines, flock enabledness by probe'),
 'enum':  ('props/', 'exhaustive enumeration of finite input domains against reference parsers / round-trip laws'),
}
checks, na = [], []
for p in props:
    i = p['id']
    if i in T:
        cat, eng, tech, text, note, ref = T[i]
        checks.append({
            'property_id': i,
            'quick_cmd': f'scripts/check.sh {i} quick',
            'thorough_cmd': f'scripts/check.sh {i} thorough',
            'evidence_file': f'/verif/evidence/{i}.json',
            'replay_cmd_template': 'scripts/check.sh replay {path}',
            'engine': eng,
            'level_claimed': {'category': cat, 'text': text, 'design_ref': 'DESIGN.md section ' + ref},
            'level_note': note,
            'technique': tech,
        })
    else:
        na.append({'property_id': i, 'reason': 'check not built yet in this round (bounded-exhaustive design exists in DESIGN.md section 6); not claimed until its check runs clean'})
used = sorted({c['engine'] for c in checks})
m = {
 'version': 1,
 'setup_cmd': 'scripts/setup.sh',
 'hooks': {
   'guard': 'verif',
   'enable': 'no hook is committed to /repo: scripts/check.sh rewrites copies of the current tree with cmd/vinstr (AST patterns: time.Now, os.Getpagesize, syscall.Flock, import sync / math/rand / crypto/rand, go statements) and builds with `go build -tags verif -overlay`',
   'baseline_off_cmd': 'cd /repo && go test -vet=off -count=1 ./...',
   'source_commits': [],
   'add_only': True,
 },
 'engines': [{'name': e, 'path': engines[e][0], 'kind_free_text': engines[e][1], 'serves_properties': [c['property_id'] for c in checks if c['engine'] == e]} for e in used],
 'checks': checks,
 'not_applicable': na,
 'notes': 'All checks are bounded exhaustive explorations (model checking family); see DESIGN.md. Genuine defects repaired by fix: commits are listed in known_findings.txt.',
}
json.dump(m, open(os.path.join(V, 'MANIFEST.json'), 'w'), indent=1)
print('checks:', [c['property_id'] for c in checks], 'na:', len(na))

// Package model is the reference semantics of a Whisper file, written from
// the property statements (C01-C04) over plain maps.  It is deliberately
// boring and part of the trusted base.  All time arithmetic is in int64.
package model

import (
	"math"
	"sort"

	"verif/wsp"
)

const Best = -1

// Shape is the result contract of a fetch (C04).
type Shape struct {
	Err     bool // from > until or archive id out of range
	Nil     bool // no series
	Archive int
	From    int64 // first slot instant
	Until   int64
	Step    int64
	N       int
}

// BestArchive is the finest archive whose retention reaches back to from
// (unclamped), else the coarsest.
func BestArchive(archs []wsp.Arch, from, now int64) int {
	age := now - from
	for i, a := range archs {
		if a.Ret() >= age {
			return i
		}
	}
	return len(archs) - 1
}

func FetchShape(archs []wsp.Arch, id int, from, until, now int64) Shape {
	if from > until {
		return Shape{Err: true}
	}
	if id != Best && (id < 0 || id >= len(archs)) {
		return Shape{Err: true}
	}
	if id == Best {
		id = BestArchive(archs, from, now)
	}
	a := archs[id]
	oldest := now - a.Ret()
	if from > now || until < oldest {
		return Shape{Nil: true, Archive: id}
	}
	if from < oldest {
		from = oldest
	}
	if until > now {
		until = now
	}
	s := int64(a.Step)
	f := from - from%s + s
	u := until - until%s + s
	if f == u {
		u += s
	}
	return Shape{Archive: id, From: f, Until: u, Step: s, N: int((u - f) / s)}
}

// Fetch returns the expected values for the shape: the ring's value iff the
// class holds exactly that interval, NaN otherwise.
func Fetch(archs []wsp.Arch, rings []wsp.Ring, sh Shape) []float64 {
	a := archs[sh.Archive]
	out := make([]float64, sh.N)
	for i := range out {
		t := sh.From + int64(i)*sh.Step
		out[i] = math.NaN()
		if t < 0 || t > math.MaxUint32 {
			continue
		}
		if s, ok := rings[sh.Archive][uint32(t/int64(a.Step))%a.N]; ok && int64(s.T) == t {
			out[i] = s.V
		}
	}
	return out
}

type Pt struct {
	T int64   `json:"t"`
	V float64 `json:"v"`
}

// Trace records, per (archive, class), who wrote it last: 'd' a direct write,
// 'p' a propagation.  It lets a check attribute a mismatch to the right clause.
type Trace struct {
	Last  map[[2]uint32]byte
	Stats map[string]int64 // propagation decisions by class (vacuity counters)
}

func NewTrace() *Trace { return &Trace{Last: map[[2]uint32]byte{}, Stats: map[string]int64{}} }

func (t *Trace) stat(k string) {
	if t != nil {
		t.Stats[k]++
	}
}

func put(tr *Trace, kind byte, id int, a wsp.Arch, r wsp.Ring, interval int64, v float64) {
	c := uint32(interval/int64(a.Step)) % a.N
	r[c] = wsp.Slot{T: uint32(interval), V: v}
	if tr != nil {
		tr.Last[[2]uint32{uint32(id), c}] = kind
	}
}

// SingleAccepted: a single update is accepted iff 0 <= age < max retention.
func SingleAccepted(archs []wsp.Arch, t, now int64) bool {
	age := now - t
	return age >= 0 && age < archs[len(archs)-1].Ret()
}

// SingleArchive: finest archive whose retention is at least the point's age.
func SingleArchive(archs []wsp.Arch, t, now int64) int {
	return BestArchive(archs, t, now)
}

// WriteSingle applies an accepted single update to archive id (explicit or chosen) and propagates.
func WriteSingle(l wsp.Layout, rings []wsp.Ring, id int, t int64, v float64, now int64, tr *Trace) {
	if id == Best {
		id = SingleArchive(l.Archs, t, now)
	}
	a := l.Archs[id]
	iv := t - t%int64(a.Step)
	put(tr, 'd', id, a, rings[id], iv, v)
	Propagate(l, rings, id, []int64{iv}, tr)
}

// Route partitions a batch (C03): each point goes to the finest archive whose
// retention exceeds its age; with a named archive exactly the points younger
// than that archive's retention are kept.  Order inside a group: ascending
// time, supplied order among equal times.
func Route(archs []wsp.Arch, pts []Pt, id int, now int64) [][]Pt {
	sorted := append([]Pt{}, pts...)
	sort.SliceStable(sorted, func(i, j int) bool { return sorted[i].T < sorted[j].T })
	out := make([][]Pt, len(archs))
	for _, p := range sorted {
		age := now - p.T
		for i, a := range archs {
			if id != Best && id != i {
				continue
			}
			if a.Ret() > age {
				out[i] = append(out[i], p)
				break
			}
		}
	}
	return out
}

// WriteBatch applies a batch update: archives are processed finest first, each
// followed by its propagation.
func WriteBatch(l wsp.Layout, rings []wsp.Ring, pts []Pt, id int, now int64, tr *Trace) {
	groups := Route(l.Archs, pts, id, now)
	for i, g := range groups {
		if len(g) == 0 {
			continue
		}
		a := l.Archs[i]
		var ivs []int64
		for _, p := range g {
			iv := p.T - p.T%int64(a.Step)
			put(tr, 'd', i, a, rings[i], iv, p.V)
			if len(ivs) == 0 || ivs[len(ivs)-1] != iv {
				ivs = append(ivs, iv)
			}
		}
		Propagate(l, rings, i, ivs, tr)
	}
}

// Propagate recomputes, level by level, the coarser slots covering the written
// intervals (C02).
func Propagate(l wsp.Layout, rings []wsp.Ring, from int, written []int64, tr *Trace) {
	ts := written
	for lvl := from + 1; lvl < len(l.Archs) && len(ts) > 0; lvl++ {
		lo, hi := l.Archs[lvl], l.Archs[lvl-1]
		// de-duplicated coarse intervals in time order of the work list
		var coarse []int64
		for _, t := range ts {
			c := t - t%int64(lo.Step)
			if len(coarse) == 0 || coarse[len(coarse)-1] != c {
				coarse = append(coarse, c)
			}
		}
		var stored []int64
		ratio := int64(lo.Step) / int64(hi.Step)
		for _, T := range coarse {
			var vals []float64
			for k := int64(0); k < ratio; k++ {
				ft := T + k*int64(hi.Step)
				if s, ok := rings[lvl-1][uint32(ft/int64(hi.Step))%hi.N]; ok && int64(s.T) == ft {
					vals = append(vals, s.V)
				}
			}
			if len(vals) == 0 {
				tr.stat("prop_no_known_value")
				continue
			}
			if float32(len(vals))/float32(ratio) < l.XFF {
				tr.stat("prop_below_xff")
				continue
			}
			if int64(len(vals)) < ratio {
				tr.stat("prop_stored_partially_known")
				if float32(len(vals)-1)/float32(ratio) < l.XFF {
					tr.stat("prop_stored_exactly_at_xff_boundary")
				}
			} else {
				tr.stat("prop_stored_fully_known")
			}
			if _, ok := rings[lvl][uint32(T/int64(lo.Step))%lo.N]; ok {
				tr.stat("prop_overwrote_existing_slot")
			}
			put(tr, 'p', lvl, lo, rings[lvl], T, Aggregate(l.Method, vals))
			stored = append(stored, T)
		}
		ts = stored
	}
}

// Aggregate applies the whisper aggregation method (1 average, 2 sum, 3 last, 4 max, 5 min, 6 first).
func Aggregate(method uint32, v []float64) float64 {
	switch method {
	case 1:
		s := 0.0
		for _, x := range v {
			s += x
		}
		return s / float64(len(v))
	case 2:
		s := 0.0
		for _, x := range v {
			s += x
		}
		return s
	case 3:
		return v[len(v)-1]
	case 4:
		m := v[0]
		for _, x := range v {
			if x > m {
				m = x
			}
		}
		return m
	case 5:
		m := v[0]
		for _, x := range v {
			if x < m {
				m = x
			}
		}
		return m
	case 6:
		return v[0]
	}
	panic("model: bad method")
}

// vinstr rewrites copies of the repository's (and two dependencies') Go files
// so that clock, page size, flock, randomness, locks and goroutine spawns go
// through verif/vrt, and writes a `go build -overlay` file.  Nothing in the
// repository is modified.  Every rule matches on *what is called*, never on
// line numbers; a rule that matches nothing is reported, not an error.
package main

import (
	"bytes"
	"encoding/json"
	"flag"
	"fmt"
	"go/ast"
	"go/format"
	"go/parser"
	"go/token"
	"os"
	"path/filepath"
	"strconv"
	"strings"
)

type selRule struct{ pkgPath, name, newName string }

type pkgCfg struct {
	tag       string
	dir       string
	sel       []selRule         // pkg.Name -> vrt.NewName
	imports   map[string]string // import path -> replacement path (local name preserved)
	goStmts   bool
	funcEntry map[string]string // func name -> IOPoint kind inserted at entry
}

type report struct {
	Matched   map[string]int `json:"matched"`
	Files     int            `json:"files"`
	Unhandled []string       `json:"unhandled,omitempty"`
}

var rep = report{Matched: map[string]int{}}

func dirExists(p string) bool {
	st, err := os.Stat(p)
	return err == nil && st.IsDir()
}

func main() {
	repo := flag.String("repo", "/repo", "repository root")
	out := flag.String("out", "", "scratch output directory")
	fbDir := flag.String("filebuffer", "", "directory of github.com/hnakamur/filebuffer")
	egDir := flag.String("errgroup", "", "directory of golang.org/x/sync/errgroup")
	flag.Parse()
	if *out == "" {
		fmt.Fprintln(os.Stderr, "vinstr: -out required")
		os.Exit(2)
	}
	syncMap := map[string]string{"sync": "verif/vrt/vsync"}
	// calls that change process-wide state (not used by the repository today; a change that introduces one gets a scheduling point)
	proc := []selRule{{"os", "Chdir", "Chdir"}, {"os", "Setenv", "Setenv"}, {"os", "Unsetenv", "Unsetenv"}, {"syscall", "Umask", "Umask"}}
	cfgs := []pkgCfg{
		{tag: "whispertool", dir: *repo,
			sel: append([]selRule{{"time", "Now", "Now"}, {"os", "Getpagesize", "Getpagesize"},
				{"syscall", "Flock", "Flock"}, {"golang.org/x/sys/unix", "Flock", "Flock"}}, proc...),
			imports: syncMap, goStmts: true},
		{tag: "cmd", dir: filepath.Join(*repo, "cmd"),
			sel: append([]selRule{{"time", "Now", "Now"}}, proc...),
			imports: map[string]string{"sync": "verif/vrt/vsync", "math/rand": "verif/vrt/vrand",
				"crypto/rand": "verif/vrt/vcrand"}, goStmts: true},
	}
	if *fbDir != "" {
		cfgs = append(cfgs, pkgCfg{tag: "filebuffer", dir: *fbDir, imports: syncMap, goStmts: true,
			funcEntry: map[string]string{"preadvFull": "pread", "pwritevFull": "pwrite"}})
	}
	if *egDir != "" {
		cfgs = append(cfgs, pkgCfg{tag: "errgroup", dir: *egDir, imports: syncMap, goStmts: true})
		// the other goroutine-coordinating package of the same module a change to the repository may start to use
		if sf := filepath.Join(filepath.Dir(*egDir), "singleflight"); dirExists(sf) {
			cfgs = append(cfgs, pkgCfg{tag: "singleflight", dir: sf, imports: syncMap, goStmts: true})
		}
	}
	overlay := map[string]string{}
	for _, c := range cfgs {
		ents, err := os.ReadDir(c.dir)
		if err != nil {
			fmt.Fprintln(os.Stderr, "vinstr:", err)
			os.Exit(1)
		}
		for _, e := range ents {
			n := e.Name()
			if e.IsDir() || !strings.HasSuffix(n, ".go") || strings.HasSuffix(n, "_test.go") {
				continue
			}
			src := filepath.Join(c.dir, n)
			dst := filepath.Join(*out, c.tag, n)
			changed, err := rewrite(c, src, dst)
			if err != nil {
				fmt.Fprintln(os.Stderr, "vinstr:", src, err)
				os.Exit(1)
			}
			if changed {
				overlay[src] = dst
				rep.Files++
			}
		}
	}
	ob, _ := json.MarshalIndent(map[string]any{"Replace": overlay}, "", " ")
	must(os.WriteFile(filepath.Join(*out, "overlay.json"), ob, 0644))
	rb, _ := json.MarshalIndent(rep, "", " ")
	must(os.WriteFile(filepath.Join(*out, "instr.json"), rb, 0644))
}

func must(err error) {
	if err != nil {
		fmt.Fprintln(os.Stderr, "vinstr:", err)
		os.Exit(1)
	}
}

func localName(spec *ast.ImportSpec) string {
	if spec.Name != nil {
		return spec.Name.Name
	}
	p, _ := strconv.Unquote(spec.Path.Value)
	return p[strings.LastIndex(p, "/")+1:]
}

func rewrite(c pkgCfg, src, dst string) (bool, error) {
	fset := token.NewFileSet()
	f, err := parser.ParseFile(fset, src, nil, parser.ParseComments)
	if err != nil {
		return false, err
	}
	changed := false
	needVrt := false
	// local names of imported packages
	names := map[string]string{} // import path -> local name
	for _, im := range f.Imports {
		p, _ := strconv.Unquote(im.Path.Value)
		names[p] = localName(im)
	}
	// 1. import replacement (keeps the local name, so selectors stay valid)
	for _, im := range f.Imports {
		p, _ := strconv.Unquote(im.Path.Value)
		if np, ok := c.imports[p]; ok {
			ln := localName(im)
			if ln == "_" || ln == "." {
				rep.Unhandled = append(rep.Unhandled, src+": import "+p+" as "+ln)
				continue
			}
			im.Name = ast.NewIdent(ln)
			im.Path.Value = strconv.Quote(np)
			im.EndPos = 0
			rep.Matched[c.tag+":import "+p]++
			changed = true
		}
	}
	// 2. selector rewrites
	ast.Inspect(f, func(n ast.Node) bool {
		se, ok := n.(*ast.SelectorExpr)
		if !ok {
			return true
		}
		id, ok := se.X.(*ast.Ident)
		if !ok || id.Obj != nil {
			return true
		}
		for _, r := range c.sel {
			if ln, ok := names[r.pkgPath]; ok && ln == id.Name && se.Sel.Name == r.name {
				id.Name = "vrt"
				se.Sel.Name = r.newName
				rep.Matched[c.tag+":"+r.pkgPath+"."+r.name]++
				changed, needVrt = true, true
			}
		}
		return true
	})
	// 3. go statements and function-entry points
	var fixList func(list []ast.Stmt)
	fixList = func(list []ast.Stmt) {
		for i, st := range list {
			g, ok := st.(*ast.GoStmt)
			if !ok || !c.goStmts {
				continue
			}
			if fl, ok := g.Call.Fun.(*ast.FuncLit); ok && len(g.Call.Args) == 0 {
				list[i] = &ast.ExprStmt{X: &ast.CallExpr{
					Fun:  &ast.SelectorExpr{X: ast.NewIdent("vrt"), Sel: ast.NewIdent("Go")},
					Args: []ast.Expr{fl}}}
				rep.Matched[c.tag+":go func"]++
				changed, needVrt = true, true
			} else {
				rep.Unhandled = append(rep.Unhandled, fmt.Sprintf("%s: go statement at %s is not a func literal", src, fset.Position(g.Pos())))
			}
		}
	}
	ast.Inspect(f, func(n ast.Node) bool {
		switch x := n.(type) {
		case *ast.BlockStmt:
			fixList(x.List)
		case *ast.CaseClause:
			fixList(x.Body)
		case *ast.CommClause:
			fixList(x.Body)
		case *ast.FuncDecl:
			if kind, ok := c.funcEntry[x.Name.Name]; ok && x.Recv == nil && x.Body != nil {
				call := &ast.ExprStmt{X: &ast.CallExpr{
					Fun:  &ast.SelectorExpr{X: ast.NewIdent("vrt"), Sel: ast.NewIdent("IOPoint")},
					Args: []ast.Expr{&ast.BasicLit{Kind: token.STRING, Value: strconv.Quote(kind)}}}}
				x.Body.List = append([]ast.Stmt{call}, x.Body.List...)
				rep.Matched[c.tag+":func "+x.Name.Name]++
				changed, needVrt = true, true
			}
		}
		return true
	})
	if !changed {
		return false, nil
	}
	// 4. drop imports that lost their last use; add vrt
	used := map[string]bool{}
	ast.Inspect(f, func(n ast.Node) bool {
		if se, ok := n.(*ast.SelectorExpr); ok {
			if id, ok := se.X.(*ast.Ident); ok && id.Obj == nil {
				used[id.Name] = true
			}
		}
		return true
	})
	for _, d := range f.Decls {
		gd, ok := d.(*ast.GenDecl)
		if !ok || gd.Tok != token.IMPORT {
			continue
		}
		var keep []ast.Spec
		for _, s := range gd.Specs {
			im := s.(*ast.ImportSpec)
			ln := localName(im)
			if ln != "_" && ln != "." && !used[ln] {
				continue
			}
			keep = append(keep, s)
		}
		gd.Specs = keep
	}
	if needVrt {
		spec := &ast.ImportSpec{Name: ast.NewIdent("vrt"), Path: &ast.BasicLit{Kind: token.STRING, Value: strconv.Quote("verif/vrt")}}
		added := false
		for _, d := range f.Decls {
			if gd, ok := d.(*ast.GenDecl); ok && gd.Tok == token.IMPORT {
				if !gd.Lparen.IsValid() {
					gd.Lparen = gd.Pos()
					gd.Rparen = gd.End()
				}
				gd.Specs = append(gd.Specs, spec)
				added = true
				break
			}
		}
		if !added {
			gd := &ast.GenDecl{Tok: token.IMPORT, Specs: []ast.Spec{spec}}
			f.Decls = append([]ast.Decl{gd}, f.Decls...)
		}
	}
	// an import decl left without specs must go
	var decls []ast.Decl
	for _, d := range f.Decls {
		if gd, ok := d.(*ast.GenDecl); ok && gd.Tok == token.IMPORT && len(gd.Specs) == 0 {
			continue
		}
		decls = append(decls, d)
	}
	f.Decls = decls
	var buf bytes.Buffer
	if err := format.Node(&buf, fset, f); err != nil {
		return false, err
	}
	if err := os.MkdirAll(filepath.Dir(dst), 0755); err != nil {
		return false, err
	}
	return true, os.WriteFile(dst, buf.Bytes(), 0644)
}

package main

import (
	"verif/fw"
	_ "verif/props"
)

func main() { fw.Main() }

// Package wsp is an independent parser/encoder of the classic Graphite
// Whisper file layout, written from the public format description, not from
// whispertool.  It is part of the trusted base of the checks.
//
//	header : u32 aggregationType | u32 maxRetention | f32 xFilesFactor | u32 archiveCount
//	archive: u32 offset | u32 secondsPerPoint | u32 points        (archiveCount times)
//	data   : per archive, `points` slots of (u32 interval | f64 value), big endian
//
// A slot with interval 0 is empty.  The interval of an archive's first slot is
// its base; interval I lives at index ((I-base)/step) mod points.
package wsp

import (
	"encoding/binary"
	"fmt"
	"math"
	"strconv"
	"strings"
)

type Arch struct {
	Step uint32 `json:"step"`
	N    uint32 `json:"n"`
}

func (a Arch) Ret() int64 { return int64(a.Step) * int64(a.N) }

type Layout struct {
	Archs  []Arch  `json:"archs"`
	Method uint32  `json:"method"`
	XFF    float32 `json:"xff"`
}

// ParseLayout reads "1s:4s,2s:8s" (seconds only; retention, not point count).
func ParseLayout(s string) []Arch {
	var out []Arch
	for _, part := range strings.Split(s, ",") {
		ab := strings.Split(part, ":")
		st, _ := strconv.Atoi(strings.TrimSuffix(ab[0], "s"))
		rt, _ := strconv.Atoi(strings.TrimSuffix(ab[1], "s"))
		out = append(out, Arch{Step: uint32(st), N: uint32(rt / st)})
	}
	return out
}

func LayoutString(a []Arch) string {
	var p []string
	for _, x := range a {
		p = append(p, fmt.Sprintf("%ds:%ds", x.Step, x.Ret()))
	}
	return strings.Join(p, ",")
}

func (l Layout) HeaderSize() int { return 16 + 12*len(l.Archs) }

func (l Layout) Offsets() []int64 {
	off := int64(l.HeaderSize())
	out := make([]int64, len(l.Archs))
	for i, a := range l.Archs {
		out[i] = off
		off += 12 * int64(a.N)
	}
	return out
}

func (l Layout) FileSize() int64 {
	sz := int64(l.HeaderSize())
	for _, a := range l.Archs {
		sz += 12 * int64(a.N)
	}
	return sz
}

func (l Layout) MaxRet() int64 { return l.Archs[len(l.Archs)-1].Ret() }

type Slot struct {
	T uint32  `json:"t"`
	V float64 `json:"v"`
}

// File is the physical content of a whisper file.
type File struct {
	Layout
	MaxRetField uint32
	Slots       [][]Slot
}

// EncodeHeaderRaw encodes arbitrary (possibly invalid) header fields.
func EncodeHeaderRaw(method, maxRet uint32, xffBits uint32, count uint32, archs [][3]uint32) []byte {
	b := make([]byte, 0, 16+12*len(archs))
	b = binary.BigEndian.AppendUint32(b, method)
	b = binary.BigEndian.AppendUint32(b, maxRet)
	b = binary.BigEndian.AppendUint32(b, xffBits)
	b = binary.BigEndian.AppendUint32(b, count)
	for _, a := range archs {
		b = binary.BigEndian.AppendUint32(b, a[0])
		b = binary.BigEndian.AppendUint32(b, a[1])
		b = binary.BigEndian.AppendUint32(b, a[2])
	}
	return b
}

// EncodeHeader encodes the header of a well-formed layout.
func (l Layout) EncodeHeader() []byte {
	offs := l.Offsets()
	archs := make([][3]uint32, len(l.Archs))
	for i, a := range l.Archs {
		archs[i] = [3]uint32{uint32(offs[i]), a.Step, a.N}
	}
	return EncodeHeaderRaw(l.Method, uint32(l.MaxRet()), math.Float32bits(l.XFF), uint32(len(l.Archs)), archs)
}

// NewFile returns an empty (never written) file of the layout.
func NewFile(l Layout) *File {
	f := &File{Layout: l, MaxRetField: uint32(l.MaxRet())}
	for _, a := range l.Archs {
		f.Slots = append(f.Slots, make([]Slot, a.N))
	}
	return f
}

func (f *File) Encode() []byte {
	b := f.Layout.EncodeHeader()
	for _, ss := range f.Slots {
		for _, s := range ss {
			b = binary.BigEndian.AppendUint32(b, s.T)
			b = binary.BigEndian.AppendUint64(b, math.Float64bits(s.V))
		}
	}
	return b
}

// Parse decodes b strictly: any deviation from the classic layout is an error.
func Parse(b []byte) (*File, error) {
	if len(b) < 16 {
		return nil, fmt.Errorf("short header: %d bytes", len(b))
	}
	f := &File{}
	f.Method = binary.BigEndian.Uint32(b[0:])
	f.MaxRetField = binary.BigEndian.Uint32(b[4:])
	f.XFF = math.Float32frombits(binary.BigEndian.Uint32(b[8:]))
	cnt := binary.BigEndian.Uint32(b[12:])
	if cnt == 0 || cnt > 1024 || len(b) < 16+12*int(cnt) {
		return nil, fmt.Errorf("bad archive count %d for %d bytes", cnt, len(b))
	}
	off := int64(16 + 12*int(cnt))
	for i := 0; i < int(cnt); i++ {
		p := b[16+12*i:]
		o, st, n := binary.BigEndian.Uint32(p), binary.BigEndian.Uint32(p[4:]), binary.BigEndian.Uint32(p[8:])
		if int64(o) != off {
			return nil, fmt.Errorf("archive %d: offset %d, want %d (contiguous, declaration order)", i, o, off)
		}
		if st == 0 || n == 0 {
			return nil, fmt.Errorf("archive %d: zero step or point count", i)
		}
		f.Archs = append(f.Archs, Arch{Step: st, N: n})
		off += 12 * int64(n)
	}
	if int64(len(b)) != off {
		return nil, fmt.Errorf("file length %d, want header + 12 x points = %d", len(b), off)
	}
	if int64(f.MaxRetField) != f.MaxRet() {
		return nil, fmt.Errorf("maxRetention field %d, want %d", f.MaxRetField, f.MaxRet())
	}
	offs := f.Offsets()
	for i, a := range f.Archs {
		ss := make([]Slot, a.N)
		for j := range ss {
			p := b[offs[i]+12*int64(j):]
			ss[j] = Slot{T: binary.BigEndian.Uint32(p), V: math.Float64frombits(binary.BigEndian.Uint64(p[4:]))}
		}
		f.Slots = append(f.Slots, ss)
	}
	return f, nil
}

// Ring is the logical content of one archive: residue class -> slot.
type Ring map[uint32]Slot

// Rings converts the physical slots to residue-class form, checking that every
// non-empty slot sits where the format says it must (relative to the base).
func (f *File) Rings() ([]Ring, error) {
	out := make([]Ring, len(f.Archs))
	for i, a := range f.Archs {
		r := Ring{}
		base := f.Slots[i][0].T
		for j, s := range f.Slots[i] {
			if s.T == 0 {
				continue
			}
			if base == 0 {
				return nil, fmt.Errorf("archive %d: slot %d holds interval %d but the first slot is empty", i, j, s.T)
			}
			if s.T%a.Step != 0 {
				return nil, fmt.Errorf("archive %d: slot %d holds interval %d, not a multiple of step %d", i, j, s.T, a.Step)
			}
			d := (int64(s.T) - int64(base)) / int64(a.Step)
			idx := ((d % int64(a.N)) + int64(a.N)) % int64(a.N)
			if idx != int64(j) {
				return nil, fmt.Errorf("archive %d: interval %d stored at slot %d, format position is %d (base %d)", i, s.T, j, idx, base)
			}
			r[(s.T/a.Step)%a.N] = s
		}
		out[i] = r
	}
	return out, nil
}

// FromRings builds a physical file from logical rings.  basePick selects, per
// archive, which populated class becomes the first physical slot (index into
// the ascending list of populated classes, modulo its length).
func FromRings(l Layout, rings []Ring, basePick []int) *File {
	f := NewFile(l)
	for i, a := range l.Archs {
		r := rings[i]
		if len(r) == 0 {
			continue
		}
		var classes []uint32
		for c := uint32(0); c < a.N; c++ {
			if _, ok := r[c]; ok {
				classes = append(classes, c)
			}
		}
		bp := 0
		if i < len(basePick) {
			bp = basePick[i] % len(classes)
		}
		c0 := classes[bp]
		for c, s := range r {
			idx := (c + a.N - c0) % a.N
			f.Slots[i][idx] = s
		}
	}
	return f
}

func CloneRings(rs []Ring) []Ring {
	out := make([]Ring, len(rs))
	for i, r := range rs {
		n := Ring{}
		for k, v := range r {
			n[k] = v
		}
		out[i] = n
	}
	return out
}

// RingsEqual compares bit-for-bit.
func RingsEqual(a, b []Ring) (bool, string) {
	if len(a) != len(b) {
		return false, "archive count"
	}
	for i := range a {
		for c, s := range a[i] {
			t, ok := b[i][c]
			if !ok || t.T != s.T || math.Float64bits(t.V) != math.Float64bits(s.V) {
				return false, fmt.Sprintf("archive %d class %d: %v vs %v (present=%v)", i, c, s, t, ok)
			}
		}
		for c, t := range b[i] {
			if _, ok := a[i][c]; !ok {
				return false, fmt.Sprintf("archive %d class %d: absent vs %v", i, c, t)
			}
		}
	}
	return true, ""
}

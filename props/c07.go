package props

import (
	"encoding/json"
	"flag"
	"fmt"
	"io"
	"math"
	"os"
	"path/filepath"
	"strconv"
	"strings"

	wt "github.com/hnakamur/whispertool"
	wcmd "github.com/hnakamur/whispertool/cmd"

	"verif/fw"
	"verif/wsp"
)

// C07 - layout validation.  Engine D: every archive list of the grid (valid,
// and invalid in every single rule and at every boundary) x methods 0..9 x
// xFilesFactor bit patterns goes through every entry point; all must agree
// with a reference predicate written from the statement in int64 arithmetic,
// and everything accepted must create, sync and reopen to an equal header.

type rawArch struct {
	Step int64 `json:"step"`
	N    int64 `json:"n"`
}

type c07Case struct {
	Archs   []rawArch `json:"archs"`
	Method  int       `json:"method"`
	XFFBits uint32    `json:"xff_bits"`
	Deep    bool      `json:"all_entry_points"`
}

func init() {
	fw.Register(&fw.Prop{
		ID: "C07", Level: "exploration", Run: runC07, Replay: replayC07,
		Rule:        "evaluations = entry-point decisions (NewHeader, Create, ParseArchiveInfoList, Header.TakeFrom, Open, cmd flag setters) compared with the reference predicate; cases are distinct (archive list, method, xff bits); non-trivial = the list is non-empty and either valid or invalid in exactly one rule.",
		Assumptions: []string{"a layout whose file size is exactly 2^32 bytes is left undecided (the statement does not say whether the end offset must be representable)", "Create/Open are exercised on tmpfs only for layouts up to 64 MiB"},
	})
}

// RefValid is the statement's predicate.  undecided: total size exactly 2^32.
func RefValid(archs []rawArch) (ok bool, why string, undecided bool, violated int) {
	if len(archs) == 0 {
		return false, "empty list", false, 1
	}
	var reasons []string
	total := int64(16 + 12*len(archs))
	for i, a := range archs {
		if a.Step <= 0 || a.Step > math.MaxInt32 {
			reasons = append(reasons, fmt.Sprintf("archive %d: step %d not positive 31-bit", i, a.Step))
		}
		if a.N <= 0 || a.N > math.MaxUint32 {
			reasons = append(reasons, fmt.Sprintf("archive %d: point count %d not positive 32-bit", i, a.N))
		}
		if a.Step > 0 && a.N > 0 && a.Step*a.N > math.MaxInt32 {
			reasons = append(reasons, fmt.Sprintf("archive %d: retention %d exceeds 31 bits", i, a.Step*a.N))
		}
		total += 12 * a.N
		if i+1 < len(archs) {
			b := archs[i+1]
			if a.Step <= 0 || b.Step <= 0 || a.N <= 0 || b.N <= 0 {
				continue
			}
			if !(a.Step < b.Step) {
				reasons = append(reasons, fmt.Sprintf("archive %d: step not strictly finer than the next", i))
			} else if b.Step%a.Step != 0 {
				reasons = append(reasons, fmt.Sprintf("archive %d: step does not divide the next step", i))
			}
			if !(a.Step*a.N < b.Step*b.N) {
				reasons = append(reasons, fmt.Sprintf("archive %d: retention not strictly shorter than the next", i))
			}
			if a.Step < b.Step && b.Step%a.Step == 0 && a.N < b.Step/a.Step {
				reasons = append(reasons, fmt.Sprintf("archive %d: too few points to consolidate one point of the next", i))
			}
		}
	}
	if total > 1<<32 {
		reasons = append(reasons, fmt.Sprintf("file size %d: offsets not representable in 32 bits", total))
	}
	if len(reasons) > 0 {
		return false, reasons[0], false, len(reasons)
	}
	if total == 1<<32 {
		return true, "", true, 0
	}
	return true, "", false, 0
}

func RefValidArchs(archs []wsp.Arch) (bool, string) {
	var r []rawArch
	for _, a := range archs {
		r = append(r, rawArch{int64(a.Step), int64(a.N)})
	}
	ok, why, _, _ := RefValid(r)
	return ok, why
}

func refMethodOK(m int) bool { return m >= 1 && m <= 6 }
func refXFFOK(bits uint32) bool {
	x := math.Float32frombits(bits)
	return !(x != x) && x >= 0 && x <= 1
}

func toInfos(archs []rawArch) []wt.ArchiveInfo {
	out := make([]wt.ArchiveInfo, len(archs))
	for i, a := range archs {
		out[i] = wt.NewArchiveInfo(wt.Duration(int32(a.Step)), uint32(a.N))
	}
	return out
}

func representableInput(archs []rawArch) bool { // can the list be handed to NewArchiveInfo unchanged?
	for _, a := range archs {
		if a.Step < math.MinInt32 || a.Step > math.MaxInt32 || a.N < 0 || a.N > math.MaxUint32 {
			return false
		}
	}
	return true
}

func rawHeaderBytes(archs []rawArch, method int, xffBits uint32) []byte {
	off := uint64(16 + 12*len(archs))
	var as [][3]uint32
	var maxRet uint32
	for _, a := range archs {
		as = append(as, [3]uint32{uint32(off), uint32(a.Step), uint32(a.N)})
		off += 12 * uint64(a.N)
		maxRet = uint32(a.Step * a.N)
	}
	return wsp.EncodeHeaderRaw(uint32(method), maxRet, xffBits, uint32(len(archs)), as)
}

func c07Eval(c *fw.Ctx, k c07Case) (sig, desc string, evals int64) {
	listOK, why, undecided, nviol := RefValid(k.Archs)
	if undecided {
		return "", "", 0
	}
	want := listOK && refMethodOK(k.Method) && refXFFOK(k.XFFBits)
	xff := math.Float32frombits(k.XFFBits)
	ctx := fmt.Sprintf("archs=%v method=%d xff=%v(bits %08x)", k.Archs, k.Method, xff, k.XFFBits)
	feature := func() string {
		switch {
		case !refXFFOK(k.XFFBits) && listOK && refMethodOK(k.Method):
			if xff != xff {
				return "xff-nan"
			}
			return "xff-out-of-range"
		case !refMethodOK(k.Method) && listOK:
			return "method"
		case !listOK && nviol == 1:
			switch {
			case len(k.Archs) == 0:
				return "empty-list"
			case len(why) > 0 && contains(why, "exceeds 31 bits"):
				return "retention-overflow"
			case contains(why, "offsets not representable"):
				return "offset-overflow"
			case contains(why, "step not strictly"):
				return "equal-or-coarser-step"
			case contains(why, "does not divide"):
				return "non-dividing-step"
			case contains(why, "retention not strictly"):
				return "retention-not-longer"
			case contains(why, "too few points"):
				return "too-few-points"
			case contains(why, "not positive"):
				return "zero-or-negative-field"
			}
		}
		return "multi"
	}
	verdict := func(entry string, accepted bool) (string, string) {
		if accepted == want {
			return "", ""
		}
		dir := "accepted-invalid"
		if want {
			dir = "rejected-valid"
		}
		return fmt.Sprintf("C07/%s/%s/%s", entry, dir, feature()), fmt.Sprintf("%s: %s accepted=%v, reference says valid=%v (%s)", ctx, entry, accepted, want, why)
	}
	var hdr *wt.Header
	if representableInput(k.Archs) {
		var err error
		if p, txt := fw.Guard(func() { hdr, err = wt.NewHeader(wt.AggregationMethod(k.Method), xff, toInfos(k.Archs)) }); p {
			return "C07/NewHeader/panic", ctx + ": " + firstLine(txt), 1
		}
		evals++
		if s, d := verdict("NewHeader", err == nil); s != "" {
			return s, d, evals
		}
	}
	if !k.Deep {
		return "", "", evals
	}
	// the same list built from archive infos that carry stale non-zero offsets (what re-slicing or concatenating
	// parsed / decoded lists produces): NewHeader must lay it out and validate it all the same
	for pattern := 0; pattern < 3 && representableInput(k.Archs) && len(k.Archs) > 0; pattern++ {
		stale := make([]wt.ArchiveInfo, len(k.Archs))
		okBuild := true
		for i, a := range k.Archs {
			off := uint32(172 + 36*i) // pattern 0: offsets of some other, longer list
			switch pattern {
			case 1: // the first archive kept from an earlier list of the same length (correct offset), later ones replaced by fresh infos
				off = 0
				if i == 0 {
					off = uint32(16 + 12*len(k.Archs))
				}
			case 2: // the first two kept, the last replaced
				off = 0
				if i == 0 {
					off = uint32(16 + 12*len(k.Archs))
				} else if i == 1 && k.Archs[0].N > 0 && k.Archs[0].N < 1<<20 {
					off = uint32(16+12*len(k.Archs)) + uint32(12*k.Archs[0].N)
				}
			}
			b := wsp.EncodeHeaderRaw(0, 0, 0, 0, [][3]uint32{{off, uint32(int32(a.Step)), uint32(a.N)}})[16:]
			if _, err := stale[i].TakeFrom(b); err != nil {
				okBuild = false
			}
		}
		if okBuild {
			var h2 *wt.Header
			var err error
			if p, txt := fw.Guard(func() { h2, err = wt.NewHeader(wt.AggregationMethod(k.Method), xff, stale) }); p {
				return "C07/NewHeader-stale-offsets/panic", ctx + ": " + firstLine(txt), evals + 1
			}
			evals++
			if s, d := verdict("NewHeader-with-stale-offsets", err == nil); s != "" {
				return s, d, evals
			}
			if err == nil && hdr != nil && h2.String() != hdr.String() {
				return "C07/NewHeader-stale-offsets/header-differs", fmt.Sprintf("%s: header built from infos with stale offsets is %q, from fresh infos %q", ctx, h2.String(), hdr.String()), evals
			}
		}
	}
	// decode entry point
	raw := rawHeaderBytes(k.Archs, k.Method, k.XFFBits)
	fits := true
	for _, a := range k.Archs {
		fits = fits && a.Step >= 0 && a.Step <= math.MaxUint32 && a.N >= 0 && a.N <= math.MaxUint32
	}
	if fits {
		h2 := &wt.Header{}
		var err error
		if p, txt := fw.Guard(func() { _, err = h2.TakeFrom(raw) }); p {
			return "C07/TakeFrom/panic", ctx + ": " + firstLine(txt), evals + 1
		}
		evals++
		// a step field >= 2^31 reads back as a negative duration: the reference rejects it as not positive
		if s, d := verdict("TakeFrom", err == nil); s != "" {
			return s, d, evals
		}
	}
	// retention-string entry point (only lists whose text the grammar can express)
	printable := len(k.Archs) > 0
	txt := ""
	for i, a := range k.Archs {
		if a.Step <= 0 || a.N <= 0 || a.Step*a.N > math.MaxInt32 || a.Step > math.MaxInt32 {
			printable = false
			break
		}
		if i > 0 {
			txt += ","
		}
		txt += fmt.Sprintf("%ds:%ds", a.Step, a.Step*a.N)
	}
	if printable && refMethodOK(k.Method) && refXFFOK(k.XFFBits) {
		var err error
		if p, t := fw.Guard(func() { _, err = wt.ParseArchiveInfoList(txt) }); p {
			return "C07/Parse/panic", ctx + ": " + firstLine(t), evals + 1
		}
		evals++
		if s, d := verdict("ParseArchiveInfoList", err == nil); s != "" {
			return s, d, evals
		}
		// the cmd flag setter is a further caller of the same predicate
		fs := flag.NewFlagSet("x", flag.ContinueOnError)
		fs.SetOutput(io.Discard)
		g := &wcmd.GenerateCommand{}
		g.Parse(fs, []string{"-retentions", txt, "-agg-method", "sum", "-dest", "x"})
		evals++
		if s, d := verdict("flag-retentions", g.ArchiveInfoList != nil); s != "" {
			return s, d, evals
		}
	}
	// files
	total := int64(16 + 12*len(k.Archs))
	for _, a := range k.Archs {
		if a.N > 0 {
			total += 12 * a.N
		}
	}
	if total <= 64<<20 && fits && len(k.Archs) > 0 {
		p := filepath.Join(c.Dir, "c07.wsp")
		os.Remove(p)
		f, _ := os.Create(p)
		f.Write(raw)
		f.Truncate(total)
		f.Close()
		var db *wt.Whisper
		var err error
		if pn, t := fw.Guard(func() { db, err = wt.Open(p) }); pn {
			return "C07/Open/panic", ctx + ": " + firstLine(t), evals + 1
		}
		evals++
		if db != nil {
			db.Close()
		}
		if s, d := verdict("Open", err == nil); s != "" {
			return s, d, evals
		}
	}
	if total <= 64<<20 && representableInput(k.Archs) {
		p := filepath.Join(c.Dir, "c07new.wsp")
		os.Remove(p)
		var db *wt.Whisper
		var err error
		if pn, t := fw.Guard(func() { db, err = wt.Create(p, toInfos(k.Archs), wt.AggregationMethod(k.Method), xff) }); pn {
			return "C07/Create/panic", ctx + ": " + firstLine(t), evals + 1
		}
		evals++
		if s, d := verdict("Create", err == nil); s != "" {
			if db != nil {
				db.Close()
			}
			return s, d, evals
		}
		if err == nil {
			serr := db.Sync()
			db.Close()
			db2, oerr := wt.Open(p)
			evals++
			if serr != nil || oerr != nil {
				return "C07/reopen/failed", fmt.Sprintf("%s: accepted by Create but Sync/Open failed: %v %v", ctx, serr, oerr), evals
			}
			h2 := db2.Header()
			db2.Close()
			l := wsp.Layout{Method: uint32(k.Method), XFF: xff}
			for _, a := range k.Archs {
				l.Archs = append(l.Archs, wsp.Arch{Step: uint32(a.Step), N: uint32(a.N)})
			}
			wantStr := fmt.Sprintf("m=%d x=%08x r=%d size=%d", k.Method, k.XFFBits, l.MaxRet(), l.FileSize())
			gotStr := fmt.Sprintf("m=%d x=%08x r=%d size=%d", h2.AggregationMethod(), math.Float32bits(h2.XFilesFactor()), h2.MaxRetention(), h2.ExpectedFileSize())
			same := wantStr == gotStr && hdr != nil && h2.ArchiveInfoList().Equal(hdr.ArchiveInfoList()) && h2.String() == hdr.String()
			b, _ := os.ReadFile(p)
			if _, perr := wsp.Parse(b); perr != nil {
				same = false
				gotStr += " parse:" + perr.Error()
			}
			if !same {
				return "C07/reopen/header-differs", fmt.Sprintf("%s: reopened header %s, want %s", ctx, gotStr, wantStr), evals
			}
			// the same layout created in place over an existing LARGER file (caller-supplied open flags), synced, reopened
			os.WriteFile(p, make([]byte, total+1234), 0644)
			db3, cerr := wt.Create(p, toInfos(k.Archs), wt.AggregationMethod(k.Method), xff, wt.WithOpenFileFlag(os.O_RDWR|os.O_CREATE))
			evals++
			if cerr == nil {
				serr := db3.Sync()
				db3.Close()
				db4, oerr := wt.Open(p)
				if serr != nil || oerr != nil {
					return "C07/reopen/failed-after-create-over-existing-file", fmt.Sprintf("%s: accepted by Create over an existing larger file, but Sync/Open failed: %v %v", ctx, serr, oerr), evals
				}
				if db4.Header().String() != hdr.String() {
					db4.Close()
					return "C07/reopen/header-differs-after-create-over-existing-file", ctx, evals
				}
				db4.Close()
			}
		}
	}
	return "", "", evals
}

func contains(s, sub string) bool {
	return len(sub) <= len(s) && (func() bool {
		for i := 0; i+len(sub) <= len(s); i++ {
			if s[i:i+len(sub)] == sub {
				return true
			}
		}
		return false
	})()
}

var c07XFF = []uint32{0x80000000, 0, 0x3f800000, 0x3f800001, 0x80000001, 0x7fc00000, 0xffc00001, 0x7f800000, 0xff800000, 0x3f000000}

var c07Thorough bool

func c07Lists(f func([]rawArch, bool)) {
	steps := []int64{0, 1, 2, 3, 4, 6}
	pts := []int64{0, 1, 2, 3, 4, 6, 7}
	if c07Thorough {
		steps = []int64{0, 1, 2, 3, 4, 6, 8, 12}
		pts = []int64{0, 1, 2, 3, 4, 5, 6, 7, 8, 12}
	}
	var all []rawArch
	for _, s := range steps {
		for _, n := range pts {
			all = append(all, rawArch{s, n})
		}
	}
	f(nil, false)
	for _, a := range all {
		f([]rawArch{a}, false)
		for _, b := range all {
			f([]rawArch{a, b}, false)
			for _, d := range all {
				f([]rawArch{a, b, d}, false)
			}
		}
	}
	// boundary family around the 32-bit limits
	bound := [][]rawArch{
		{{1, 357913938}}, {{1, 357913939}}, {{1, 357913940}},
		{{1, 1<<31 - 1}}, {{1, 1 << 31}}, {{1, 1<<32 - 1}},
		{{60, 35791394}}, {{60, 35791395}}, {{2, 1 << 30}}, {{2, 1<<30 - 1}},
		{{1, 630720000}}, {{86400, 24855}}, {{86400, 24856}}, {{31536000, 68}}, {{31536000, 69}},
		{{1<<31 - 1, 1}}, {{1 << 31, 1}}, {{1<<32 - 1, 1}}, {{-1, 5}}, {{1<<31 - 1, 2}},
		{{1, 357913000}, {2, 200000000}}, {{1, 100}, {2, 357913900}}, {{1, 178956970}, {2, 178956971}},
		{{1, 300000000}, {60, 35791394}}, {{60, 1440}, {3600, 596523}}, {{60, 1440}, {3600, 596524}},
		{{1, 2}, {2, 6}, {4, 1 << 29}}, {{1, 2}, {2, 1<<31 - 1}},
		{{60, 1440}, {300, 8640}, {3600, 43800}},
	}
	for _, b := range bound {
		f(b, true)
	}
}

func runC07(c *fw.Ctx) {
	c07Thorough = c.Thorough()
	idx := 0
	c.R.Bounds["lists"] = "all lists of length 0..3 over steps {0,1,2,3,4,6} x points {0,1,2,3,4,6,7} (thorough: steps {0,1,2,3,4,6,8,12} x points {0..8,12}) + 29 boundary lists around 2^31 / 2^32 + overflow numerals as retention strings"
	c.R.Bounds["methods_xff"] = "methods 0..9 x xff bits {-0, 0, 1, nextafter(1), -denormal, NaN x2, +Inf, -Inf, 0.5} through NewHeader; all entry points with (sum, 0.5) and one-rule-invalid header fields"
	c07Lists(func(archs []rawArch, boundary bool) {
		idx++
		if idx%c.Of != c.Shard {
			return
		}
		if idx&0xfff == 0 && c.Expired() {
			return
		}
		listOK, _, _, nviol := RefValid(archs)
		for m := 0; m <= 9; m++ {
			for _, xb := range c07XFF {
				deep := (m == 2 && xb == 0x3f000000) || (boundary && m == 2) || (listOK && (m == 7 || m == 0 || xb == 0x7fc00000 || xb == 0x3f800001) && (m == 2 || xb == 0x3f000000))
				k := c07Case{Archs: archs, Method: m, XFFBits: xb, Deep: deep}
				sig, desc, n := c07Eval(c, k)
				c.Count("evaluations", n)
				if len(archs) > 0 && (listOK || nviol == 1) {
					c.Count("distinct_nontrivial", 1)
				}
				if listOK && refMethodOK(m) && refXFFOK(xb) {
					c.Count("valid_cases", 1)
				}
				if sig != "" {
					c.Violate(sig, desc, len(archs)*1000+m*10, k, "")
				}
			}
		}
		if listOK && len(archs) == 3 {
			c.Sample(3, map[string]any{"archs": archs, "valid": true, "entry_points": "NewHeader, TakeFrom, ParseArchiveInfoList, flag, Open, Create+Sync+Open"})
		}
	})
	// the retention-string entry point at the 32-bit limits of number x unit (reference: exact big-integer meaning)
	if c.Shard == 0 {
		for _, d := range OverflowNumerals() {
			for _, str := range []string{"1s:" + d, d + ":" + d, "1s:60s,1m:" + d, d + ":120s"} {
				c.Count("evaluations", 1)
				if sig, desc := c19ListStr(str); sig != "" {
					c.Violate("C07/ParseArchiveInfoList/accepted-invalid/"+sig[len("C19/list/"):], desc, len(str), c07Case{}, "")
				}
			}
		}
	}
	// zero steps and zero retentions, in every unit and at every position of a list of one to three archives
	if c.Shard == 0 {
		base := []string{"1s:1m", "1m:1h", "1h:1d"}
		for _, u := range []string{"s", "m", "h", "d", "w", "y"} {
			for n := 1; n <= 3; n++ {
				for pos := 0; pos < n; pos++ {
					ret := strings.SplitN(base[pos], ":", 2)[1]
					st := strings.SplitN(base[pos], ":", 2)[0]
					for _, bad := range []string{"0" + u + ":" + ret, st + ":0" + u, "0" + u + ":0" + u} {
						parts := append([]string{}, base[:n]...)
						parts[pos] = bad
						str := strings.Join(parts, ",")
						c.Count("evaluations", 1)
						if sig, desc := c19ListStr(str); sig != "" {
							c.Violate("C07/ParseArchiveInfoList/zero-step-or-retention/"+sig[len("C19/list/"):], desc, len(str), c07Case{}, "")
						}
						fs := flag.NewFlagSet("x", flag.ContinueOnError)
						fs.SetOutput(io.Discard)
						g := &wcmd.GenerateCommand{}
						if p, txt := fw.Guard(func() { g.Parse(fs, []string{"-retentions", str, "-agg-method", "sum", "-dest", "x"}) }); p || g.ArchiveInfoList != nil {
							c.Violate("C07/flag-retentions/zero-step-or-retention", fmt.Sprintf("-retentions %q: accepted=%v %s", str, g.ArchiveInfoList != nil, firstLine(txt)), len(str), c07Case{}, "")
						}
					}
				}
			}
		}
	}
	// the x-files-factor and agg-method flag setters
	if c.Shard == 0 {
		for _, s := range []string{"NaN", "nan", "-0", "0", "1", "1.0000001", "-1e-45", "Inf", "-Inf", "0.5", "1e-50", "2", "x", ""} {
			fs := flag.NewFlagSet("x", flag.ContinueOnError)
			fs.SetOutput(io.Discard)
			g := &wcmd.GenerateCommand{XFilesFactor: -7}
			err := fs.Parse(nil)
			_ = err
			g.Parse(fs, []string{"-agg-method", "sum", "-retentions", "1s:2s", "-dest", "x"})
			serr := fs.Lookup("x-files-factor").Value.Set(s)
			f, perr := strconv.ParseFloat(s, 32)
			want := perr == nil && !(f != f) && f >= 0 && f <= 1
			c.Count("evaluations", 1)
			if (serr == nil) != want {
				feat := "xff-out-of-range"
				if f != f {
					feat = "xff-nan"
				}
				c.Violate("C07/flag-x-files-factor/"+map[bool]string{true: "rejected-valid", false: "accepted-invalid"}[want]+"/"+feat,
					fmt.Sprintf("flag -x-files-factor %q: accepted=%v, reference says valid=%v", s, serr == nil, want), 1, c07Case{}, "")
			}
		}
		for m := 1; m <= 8; m++ {
			name := wt.AggregationMethod(m).String()
			fs := flag.NewFlagSet("x", flag.ContinueOnError)
			fs.SetOutput(io.Discard)
			g := &wcmd.GenerateCommand{}
			g.Parse(fs, []string{"-retentions", "1s:2s", "-dest", "x"})
			serr := fs.Lookup("agg-method").Value.Set(name)
			c.Count("evaluations", 1)
			if (serr == nil) != refMethodOK(m) {
				c.Violate("C07/flag-agg-method/"+map[bool]string{true: "rejected-valid", false: "accepted-invalid"}[refMethodOK(m)]+"/method",
					fmt.Sprintf("flag -agg-method %q: accepted=%v", name, serr == nil), 1, c07Case{}, "")
			}
		}
	}
}

func replayC07(c *fw.Ctx, raw json.RawMessage) (bool, string) {
	var k c07Case
	if err := json.Unmarshal(raw, &k); err != nil {
		return false, err.Error()
	}
	if len(k.Archs) == 0 && k.Method == 0 && k.XFFBits == 0 {
		return false, "flag cases are not replayable from the artefact"
	}
	sig, desc, _ := c07Eval(c, k)
	return sig != "", desc
}

package props

import (
	"bytes"
	"encoding/json"
	"fmt"
	"math"
	"net/http"
	"net/http/httptest"
	"net/url"
	"os"
	"path/filepath"
	"sync"

	wt "github.com/hnakamur/whispertool"
	wcmd "github.com/hnakamur/whispertool/cmd"

	"verif/fw"
	"verif/vrt"
	"verif/wsp"
)

// C17 - concurrent reads are race-free and equal to sequential reads.
// Engine C: all interleavings within the preemption bound of (F) K fetches on
// one shared cold handle, (S) the per-file workers of sum, (E) the two readers
// of diff / copy, (H) pairs and triples of HTTP requests served by the real
// handlers; every thread's result must equal the result of the same operation
// executed alone.  Plus the free-running race-detector pass.

var hmu sync.Mutex // protects harness-side result slots in the free-running pass

func init() {
	fw.Register(&fw.Prop{
		ID: "C17", Level: "model_checking", Run: runC17,
		Replay:      func(c *fw.Ctx, raw json.RawMessage) (bool, string) { return replayScenario(c, raw, c17Scenarios) },
		Rule:        "states = complete executions (distinct schedules) explored depth-first under the preemption bound; transitions = scheduling points executed; traces_validated_against_impl = executions in which every thread's result equalled the result of the same operation executed alone.",
		Assumptions: []string{"scheduling points: page-buffer mutex, preadv/pwritev, flock, errgroup spawn/Wait/Once, and the harness ResponseWriter; a race whose effect is not observable at a point is the race pass's business", "the race-detector pass samples free-running schedules; it is reported separately"},
		NeedsInstr:  []string{"whispertool:os.Getpagesize", "filebuffer:import sync", "errgroup:go func", "errgroup:import sync", "cmd:time.Now"},
	})
}

const c17Now = int64(1700000005)

func c17Rings(l wsp.Layout, salt int) []wsp.Ring {
	r := EmptyRings(l)
	for i, a := range l.Archs {
		for j, t := range SlotTimes(a, c17Now) {
			if (j+salt)%4 == 3 {
				continue
			}
			r[i][uint32(t/int64(a.Step))%a.N] = wsp.Slot{T: uint32(t), V: float64(100*(i+1)+j+salt) + 0.5}
		}
	}
	return r
}

type pointWriter struct {
	*httptest.ResponseRecorder
}

// Header and WriteHeader are scheduling points as well: a real connection may stall a handler anywhere it touches
// the response.
func (w pointWriter) Header() http.Header {
	vrt.Point("http-header", nil)
	return w.ResponseRecorder.Header()
}

func (w pointWriter) WriteHeader(code int) {
	vrt.Point("http-write-header", nil)
	w.ResponseRecorder.WriteHeader(code)
}

func (w pointWriter) Write(b []byte) (int, error) {
	vrt.Point("http-write", nil)
	return w.ResponseRecorder.Write(b)
}

func c17Scenarios(c *fw.Ctx) []*Scenario {
	l := wsp.Layout{Archs: LayoutByTag("L6").Archs, Method: 2, XFF: 0}
	root := filepath.Join(c.Dir, "c17")
	b2, b3 := 2, 1
	if c.Thorough() {
		b2, b3 = 3, 2
	}
	var out []*Scenario

	// (F) K concurrent fetches on one shared handle with a cold page cache
	type fq struct {
		id          int
		from, until int64
	}
	fetchNames := []string{"F-two-fetches", "F-two-fetches-same", "F-three-fetches", "F-three-fetches-small"}
	fetchSets := [][]fq{
		{{0, c17Now - 7, c17Now}, {2, c17Now - 16, c17Now}},
		{{0, c17Now - 7, c17Now}, {0, c17Now - 5, c17Now - 1}},
		{{0, c17Now - 7, c17Now}, {1, c17Now - 8, c17Now}, {-1, c17Now - 12, c17Now - 2}},
		{{0, c17Now - 2, c17Now}, {0, c17Now - 3, c17Now - 1}, {1, c17Now - 8, c17Now - 4}},
	}
	// the same on a never-written file (the read path that synthesises empty series), windows of growing size
	fetchNames = append(fetchNames, "F-never-written-two", "F-never-written-three")
	fetchSets = append(fetchSets,
		[]fq{{0, c17Now - 2, c17Now}, {0, c17Now - 7, c17Now}},
		[]fq{{2, c17Now - 8, c17Now}, {0, c17Now - 6, c17Now}, {2, c17Now - 16, c17Now}})
	fetchNames = append(fetchNames, "F-long-windows")
	fetchSets = append(fetchSets, []fq{{0, c17Now - 400, c17Now}, {0, c17Now - 650, c17Now - 300}})
	for fi, qs := range fetchSets {
		name, qs := fetchNames[fi], qs
		neverWritten := fi == 4 || fi == 5
		long := fi == 6
		bound := b2
		if len(qs) == 3 {
			bound = b3
		}
		if long {
			bound = 1 // ~1400 scheduling points per execution
		}
		out = append(out, &Scenario{Name: name, Bound: bound, Make: func() ([]func(), func(*vrt.Sched) (string, string, string)) {
			l := l
			vrt.SetPagesize(16)
			rings := c17Rings(l, 0)
			if neverWritten {
				rings = EmptyRings(l)
			}
			if long { // 700 + 14 slots over three real pages; windows of 400 and 350 slots
				l = wsp.Layout{Archs: LP.Archs, Method: 2, XFF: 0}
				vrt.SetPagesize(4096)
				rings = c17Rings(l, 1)
			}
			p := filepath.Join(root, "shared.wsp")
			(&BFile{L: l, Rings: rings}).Write(p)
			db, err := wt.Open(p)
			res := make([]FetchObs, len(qs))
			var bodies []func()
			for i, q := range qs {
				i, q := i, q
				bodies = append(bodies, func() {
					if db == nil {
						return
					}
					o := RealFetch(db, q.id, Window{q.from, q.until}, c17Now)
					hmu.Lock()
					res[i] = o
					hmu.Unlock()
				})
			}
			judge := func(s *vrt.Sched) (string, string, string) {
				if db != nil {
					db.Close()
				}
				if err != nil {
					return "", "", "open-failed"
				}
				if s.Deadlock || len(s.Panics) > 0 || s.Diverged != "" {
					return "", "", "aborted"
				}
				for i, q := range qs {
					exp, _ := ExpRead(l, rings, -1, q.from, q.until, c17Now)
					id := q.id
					if id < 0 {
						id = BestArchiveOf(l, q.from)
					}
					if res[i].Panic != "" {
						return "C17/" + name + "/panic", firstLine(res[i].Panic), "panic"
					}
					if ok, j := valsEqual(exp[id].Vals, res[i].Vals); !ok || res[i].From != exp[id].Shape.From {
						return "C17/" + name + "/result-differs-from-solo", fmt.Sprintf("fetch %d (archive %d, window %d..%d) returned %v, alone it returns %v (first difference at %d)", i, q.id, q.from, q.until, res[i].Vals, exp[id].Vals, j), "differs"
					}
				}
				return "", "", "equal"
			}
			return bodies, judge
		}})
	}

	// (F') concurrent fetches on a handle that has WRITTEN and not read since: created, the first slot of every archive
	// written (coarsest first), nothing synced or fetched before the concurrent phase.  Reference: the same preparation on
	// a second file, fetched sequentially.
	{
		name := "F-created-written-handle"
		qs := []fq{{2, c17Now - 16, c17Now}, {2, c17Now - 8, c17Now}, {0, c17Now - 7, c17Now}}
		prep := func(p string) (*wt.Whisper, error) {
			os.Remove(p)
			db, err := wt.Create(p, archList(l.Archs), wt.Sum, 0)
			if err != nil {
				return nil, err
			}
			for i := len(l.Archs) - 1; i >= 0; i-- {
				st := int64(l.Archs[i].Step)
				for j, t := range []int64{c17Now, c17Now - st} {
					if err := db.UpdatePointForArchive(i, wt.Timestamp(t), wt.Value(float64(10*i+j)+0.5), wt.Timestamp(c17Now)); err != nil {
						db.Close()
						return nil, err
					}
				}
			}
			return db, nil
		}
		var solo []FetchObs
		out = append(out, &Scenario{Name: name, Bound: b3, Make: func() ([]func(), func(*vrt.Sched) (string, string, string)) {
			vrt.SetPagesize(16)
			os.MkdirAll(root, 0755)
			if solo == nil {
				if ref, err := prep(filepath.Join(root, "created-ref.wsp")); err == nil {
					for _, q := range qs {
						solo = append(solo, RealFetch(ref, q.id, Window{q.from, q.until}, c17Now))
					}
					ref.Close()
				}
			}
			db, err := prep(filepath.Join(root, "created.wsp"))
			res := make([]FetchObs, len(qs))
			var bodies []func()
			for i, q := range qs {
				i, q := i, q
				bodies = append(bodies, func() {
					if db == nil {
						return
					}
					o := RealFetch(db, q.id, Window{q.from, q.until}, c17Now)
					hmu.Lock()
					res[i] = o
					hmu.Unlock()
				})
			}
			judge := func(s *vrt.Sched) (string, string, string) {
				if db != nil {
					db.Close()
				}
				if err != nil || len(solo) != len(qs) {
					return "", "", "prepare-failed"
				}
				if s.Deadlock || len(s.Panics) > 0 || s.Diverged != "" {
					return "", "", "aborted"
				}
				for i, q := range qs {
					if res[i].Panic != "" {
						return "C17/" + name + "/panic", firstLine(res[i].Panic), "panic"
					}
					if ok, j := valsEqual(solo[i].Vals, res[i].Vals); !ok || res[i].From != solo[i].From || res[i].Err != solo[i].Err {
						return "C17/" + name + "/result-differs-from-solo", fmt.Sprintf("fetch %d (archive %d, window %d..%d) returned %v, alone it returns %v (first difference at %d)", i, q.id, q.from, q.until, res[i].Vals, solo[i].Vals, j), "differs"
					}
				}
				return "", "", "equal"
			}
			return bodies, judge
		}})
	}

	// (F'') raw dumps and fetches on one shared handle: every read call of the handle, not only Fetch
	{
		name := "F-raw-dumps"
		out = append(out, &Scenario{Name: name, Bound: b3, Make: func() ([]func(), func(*vrt.Sched) (string, string, string)) {
			vrt.SetPagesize(16)
			rings := c17Rings(l, 0)
			p := filepath.Join(root, "rawshared.wsp")
			(&BFile{L: l, Rings: rings}).Write(p)
			phys := wsp.FromRings(l, rings, nil)
			db, err := wt.Open(p)
			raws := make([]wt.Points, 2)
			rerrs := make([]error, 2)
			var fo FetchObs
			bodies := []func(){
				func() {
					if db != nil {
						r, e := db.GetAllRawUnsortedPoints(0)
						hmu.Lock()
						raws[0], rerrs[0] = r, e
						hmu.Unlock()
					}
				},
				func() {
					if db != nil {
						r, e := db.GetAllRawUnsortedPoints(1)
						hmu.Lock()
						raws[1], rerrs[1] = r, e
						hmu.Unlock()
					}
				},
				func() {
					if db != nil {
						o := RealFetch(db, 0, Window{c17Now - 7, c17Now}, c17Now)
						hmu.Lock()
						fo = o
						hmu.Unlock()
					}
				},
			}
			judge := func(s *vrt.Sched) (string, string, string) {
				if db != nil {
					db.Close()
				}
				if err != nil {
					return "", "", "open-failed"
				}
				if s.Deadlock || len(s.Panics) > 0 || s.Diverged != "" {
					return "", "", "aborted"
				}
				for a := 0; a < 2; a++ {
					if rerrs[a] != nil || len(raws[a]) != len(phys.Slots[a]) {
						return "C17/" + name + "/result-differs-from-solo", fmt.Sprintf("raw dump of archive %d: %d points, error %v; alone: %d points", a, len(raws[a]), rerrs[a], len(phys.Slots[a])), "differs"
					}
					for i, pt := range raws[a] {
						sl := phys.Slots[a][i]
						if uint32(pt.Time) != sl.T || math.Float64bits(float64(pt.Value)) != math.Float64bits(sl.V) {
							return "C17/" + name + "/result-differs-from-solo", fmt.Sprintf("raw dump of archive %d, slot %d: (%d, %v); alone it is (%d, %v)", a, i, pt.Time, pt.Value, sl.T, sl.V), "differs"
						}
					}
				}
				exp, _ := ExpRead(l, rings, 0, c17Now-7, c17Now, c17Now)
				if ok, j := valsEqual(exp[0].Vals, fo.Vals); !ok {
					return "C17/" + name + "/result-differs-from-solo", fmt.Sprintf("the fetch next to two raw dumps returned %v, alone %v (first difference at %d)", fo.Vals, exp[0].Vals, j), "differs"
				}
				return "", "", "equal"
			}
			return bodies, judge
		}})
	}

	// (S) sum over 2 and 3 files, (E) diff and copy: the command's own goroutines are scheduler threads
	mkWorld := func() {
		os.RemoveAll(root)
		// order-sensitive inputs: the three files carry different aggregation methods / xFilesFactors (sum reports the
		// first file's header) and magnitudes whose float64 sum depends on the order of addition
		for f, n := range []string{"a.wsp", "b.wsp", "c.wsp"} {
			lf := l
			lf.Method, lf.XFF = []uint32{2, 1, 3}[f], []float32{0, 0.5, 1}[f]
			r := c17Rings(l, f)
			for i := range r {
				for cls, sl := range r[i] {
					if f == 0 {
						sl.V = 1e16
					} else {
						sl.V = 1
					}
					r[i][cls] = sl
				}
			}
			(&BFile{L: lf, Rings: r}).Write(filepath.Join(root, "s", "it", "x", n))
		}
		(&BFile{L: l, Rings: c17Rings(l, 0)}).Write(filepath.Join(root, "s", "a.wsp"))
		(&BFile{L: l, Rings: c17Rings(l, 1)}).Write(filepath.Join(root, "d", "a.wsp"))
	}
	type cmdObs struct {
		cls, text string
		dest      []byte
	}
	runCmd := func(kind string) cmdObs {
		outp := filepath.Join(root, "out.txt")
		var cmd Executor
		switch kind {
		case "sum3":
			cmd = &wcmd.SumCommand{SrcBase: filepath.Join(root, "s"), ItemPattern: "it/*", SrcPattern: "*.wsp", ArchiveID: -1, TextOut: outp, ShowHeader: true}
		case "sum2":
			cmd = &wcmd.SumCommand{SrcBase: filepath.Join(root, "s"), ItemPattern: "it/*", SrcPattern: "[ab].wsp", ArchiveID: -1, TextOut: outp}
		case "diff":
			cmd = &wcmd.DiffCommand{SrcBase: filepath.Join(root, "s"), SrcRelPath: "a.wsp", DestBase: filepath.Join(root, "d"), ArchiveID: -1, TextOut: outp}
		case "copy":
			cmd = &wcmd.CopyCommand{SrcBase: filepath.Join(root, "s"), SrcRelPath: "a.wsp", DestBase: filepath.Join(root, "d"), AggregationMethod: wt.Sum, ArchiveInfoList: archList(l.Archs), ArchiveID: -1, TextOut: outp, CopyNaN: true}
		case "diff-remote":
			// both sides behind the (free-running) server: the command's two readers are clients at the same time
			srv, sroot := c12Server(c)
			if srv == "" {
				return cmdObs{cls: "no-server"}
			}
			(&BFile{L: l, Rings: c17Rings(l, 0)}).Write(filepath.Join(sroot, "cr", "a.wsp"))
			(&BFile{L: l, Rings: c17Rings(l, 1)}).Write(filepath.Join(sroot, "cr", "b.wsp"))
			cmd = &wcmd.DiffCommand{SrcBase: srv, SrcRelPath: "cr/a.wsp", DestBase: srv, DestRelPath: "cr/b.wsp", ArchiveID: -1, TextOut: outp}
		}
		err, pn := RunCommand(c17Now, cmd)
		o := cmdObs{cls: classify(err, pn), text: readAndRemove(outp)}
		if kind == "copy" {
			o.dest, _ = os.ReadFile(filepath.Join(root, "d", "a.wsp"))
		}
		return o
	}
	for _, kind := range []string{"sum2", "sum3", "diff", "copy", "diff-remote"} {
		kind := kind
		var solo *cmdObs
		bound := b2
		if kind == "sum3" {
			bound = b3
		}
		out = append(out, &Scenario{Name: "CMD-" + kind, Bound: bound, Make: func() ([]func(), func(*vrt.Sched) (string, string, string)) {
			vrt.SetPagesize(4096)
			if solo == nil {
				mkWorld()
				o := runCmd(kind) // executed alone, before any scheduler is installed
				solo = &o
			}
			mkWorld()
			var got cmdObs
			body := func() {
				o := runCmd(kind)
				hmu.Lock()
				got = o
				hmu.Unlock()
			}
			judge := func(s *vrt.Sched) (string, string, string) {
				if s.Deadlock || len(s.Panics) > 0 || s.Diverged != "" {
					return "", "", "aborted"
				}
				if got.cls != solo.cls || got.text != solo.text || !bytes.Equal(got.dest, solo.dest) {
					return "C17/CMD-" + kind + "/result-differs-from-solo", fmt.Sprintf("%s under this schedule: %s, output %q; executed alone: %s, output %q", kind, got.cls, clip(got.text, 300), solo.cls, clip(solo.text, 300)), "differs"
				}
				return "", "", "equal:" + got.cls
			}
			return []func(){body}, judge
		}})
	}

	// (H) requests served concurrently by the real handlers
	q := func(path string, kv ...string) string {
		v := url.Values{}
		for i := 0; i+1 < len(kv); i += 2 {
			v.Set(kv[i], kv[i+1])
		}
		return path + "?" + v.Encode()
	}
	ts := func(t int64) string { return FormatUTC(t) }
	reqs := map[string]string{
		"view":       q("/view", "file", "a.wsp", "retention", "-1", "from", ts(0), "until", ts(c17Now), "now", ts(c17Now)),
		"view-b":     q("/view", "file", "b.wsp", "retention", "1", "from", ts(c17Now-8), "until", ts(c17Now), "now", ts(c17Now)),
		"view-raw":   q("/view-raw", "file", "a.wsp", "retention", "-1"),
		"view-raw-b": q("/view-raw", "file", "b.wsp", "retention", "-1"),
		"sum-y":      q("/sum", "item", "it.y", "pattern", "*.wsp", "retention", "0", "from", ts(c17Now-5), "until", ts(c17Now), "now", ts(c17Now)),
		"files-it":   q("/files", "pattern", "it/*/*.wsp"),
		// requests that fail, each in its own way
		"view-bad-int":  q("/view", "file", "a.wsp", "retention", "bad0", "from", ts(0), "until", ts(c17Now), "now", ts(c17Now)),
		"view-oor":      q("/view", "file", "a.wsp", "retention", "9", "from", ts(0), "until", ts(c17Now), "now", ts(c17Now)),
		"view-bad-ts":   q("/view", "file", "b.wsp", "retention", "0", "from", "yesterday", "until", ts(c17Now), "now", ts(c17Now)),
		"view-inverted": q("/view", "file", "a.wsp", "retention", "0", "from", ts(c17Now-1), "until", ts(c17Now-5), "now", ts(c17Now)),
		"sum-oor":       q("/sum", "item", "it.x", "pattern", "*.wsp", "retention", "9", "from", ts(0), "until", ts(c17Now), "now", ts(c17Now)),
		"sum-bad-int":   q("/sum", "item", "it.x", "pattern", "*.wsp", "retention", "x", "from", ts(0), "until", ts(c17Now), "now", ts(c17Now)),
		"sum":           q("/sum", "item", "it.x", "pattern", "*.wsp", "retention", "-1", "from", ts(0), "until", ts(c17Now), "now", ts(c17Now)),
		// identical to "sum" but for the client's clock: the window's old end is clamped differently
		"sum-later": q("/sum", "item", "it.x", "pattern", "*.wsp", "retention", "-1", "from", ts(0), "until", ts(c17Now), "now", ts(c17Now+4)),
		"items":     q("/items", "pattern", "it/*"),
		"files":     q("/files", "pattern", "*.wsp"),
	}
	type hobs struct {
		code int
		body []byte
	}
	var hroot string
	serve := func(u string) hobs {
		req := httptest.NewRequest("GET", u, nil)
		rw := pointWriter{httptest.NewRecorder()}
		http.DefaultServeMux.ServeHTTP(rw, req)
		return hobs{rw.Code, rw.Body.Bytes()}
	}
	mkServed := func() bool {
		url, r := c12Server(c)
		if url == "" {
			return false
		}
		hroot = r
		os.RemoveAll(hroot)
		(&BFile{L: l, Rings: c17Rings(l, 0)}).Write(filepath.Join(hroot, "a.wsp"))
		(&BFile{L: l, Rings: c17Rings(l, 1)}).Write(filepath.Join(hroot, "b.wsp"))
		la, lb := l, l
		la.Method, la.XFF = 2, 0
		lb.Method, lb.XFF = 1, 0.5 // the two files of the item differ in their headers: /sum reports the first one's
		(&BFile{L: la, Rings: c17Rings(l, 0)}).Write(filepath.Join(hroot, "it", "x", "a.wsp"))
		(&BFile{L: lb, Rings: c17Rings(l, 2)}).Write(filepath.Join(hroot, "it", "x", "b.wsp"))
		(&BFile{L: l, Rings: c17Rings(l, 3)}).Write(filepath.Join(hroot, "it", "y", "a.wsp"))
		return true
	}
	combos := [][]string{{"view", "view"}, {"view", "view-raw"}, {"view", "sum"}, {"view", "view-b"}, {"view-raw", "sum"}, {"sum", "sum"}, {"items", "files"}, {"view", "items"}, {"view-raw", "files"}, {"view-raw", "view-raw"},
		{"view-raw", "view-raw-b"}, {"sum", "sum-y"}, {"sum", "sum-later"}, {"files", "files-it"}, {"view-b", "view-raw-b"},
		{"view-bad-int", "view-oor"}, {"view-bad-ts", "view-oor"}, {"view-oor", "view"}, {"sum-oor", "sum"}, {"sum-oor", "sum-bad-int"}, {"view-bad-int", "view"}, {"view-oor", "view-inverted"}, {"view-inverted", "sum-oor"},
		{"view", "view-raw", "sum"}, {"view", "view-b", "items"}, {"view-raw", "view-raw-b", "view-b"}, {"view-bad-int", "view-oor", "view-bad-ts"}}
	solos := map[string]hobs{}
	for _, combo := range combos {
		combo := combo
		name := "H"
		for _, n := range combo {
			name += "-" + n
		}
		bound := b2
		nsum := 0
		for _, n := range combo {
			if n == "sum" || n == "sum-y" || n == "sum-oor" || n == "sum-later" {
				nsum++ // a sum request brings two worker threads of its own
			}
		}
		if len(combo) == 3 || nsum == 2 {
			bound = b3
		}
		out = append(out, &Scenario{Name: name, Bound: bound, Make: func() ([]func(), func(*vrt.Sched) (string, string, string)) {
			vrt.SetPagesize(4096)
			ok := mkServed()
			if ok {
				for _, n := range combo {
					if _, have := solos[n]; !have {
						mkServed()                // fresh files: nothing an earlier request left behind (a lock) reaches this one
						solos[n] = serve(reqs[n]) // alone, no scheduler installed
					}
				}
			}
			if ok {
				mkServed()
			}
			res := make([]hobs, len(combo))
			var bodies []func()
			for i, n := range combo {
				i, n := i, n
				bodies = append(bodies, func() {
					if !ok {
						return
					}
					o := serve(reqs[n])
					hmu.Lock()
					res[i] = o
					hmu.Unlock()
				})
			}
			judge := func(s *vrt.Sched) (string, string, string) {
				if !ok {
					return "", "", "no-server"
				}
				if s.Deadlock || len(s.Panics) > 0 || s.Diverged != "" {
					return "", "", "aborted"
				}
				for i, n := range combo {
					if res[i].code != solos[n].code || !bytes.Equal(res[i].body, solos[n].body) {
						return "C17/" + name + "/response-differs-from-solo", fmt.Sprintf("request %s answered %d with %d bytes; served alone: %d with %d bytes", n, res[i].code, len(res[i].body), solos[n].code, len(solos[n].body)), "differs"
					}
				}
				return "", "", "equal"
			}
			return bodies, judge
		}})
	}
	return out
}

// BestArchiveOf mirrors the statement: finest archive whose retention reaches back to from.
func BestArchiveOf(l wsp.Layout, from int64) int {
	for i, a := range l.Archs {
		if a.Ret() >= c17Now-from {
			return i
		}
	}
	return len(l.Archs) - 1
}

func runC17(c *fw.Ctx) {
	scs := c17Scenarios(c)
	for _, sc := range scs {
		if only := os.Getenv("VERIF_ONLY"); only != "" && only != sc.Name {
			continue
		}
		ExploreScenario(c, "C17", sc)
		if c.Shard == 0 {
			c.Sample(4, map[string]any{"scenario": sc.Name, "preemption_bound": sc.Bound, "coverage": c.R.Bounds["scenario:"+sc.Name]})
		}
	}
	if c.Shard == c.Of-1 {
		RacePass(c, "C17")
	}
}

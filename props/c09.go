package props

import (
	"encoding/json"
	"errors"
	"fmt"
	"math"
	"os"
	"path/filepath"
	"strings"

	wcmd "github.com/hnakamur/whispertool/cmd"

	"verif/fw"
	"verif/wsp"
)

// C09 - diff reports exactly the slots that differ.  Engine B over pairs of
// files whose contents enumerate {absent, v1, v2} per slot (several value
// palettes: +-0, one-ulp neighbours, stored NaN), all archive selections and
// windows, both argument orders, missing sides, unequal layouts and glob mode.

type c09Case struct {
	Layout  string `json:"layout"`
	Now     int64  `json:"now"`
	Palette int    `json:"palette"`
	Src     []int  `json:"src_slots"`
	Dst     []int  `json:"dest_slots"`
	Mode    string `json:"mode"` // pair | missing-dest | missing-src | layout | glob
	Archive int    `json:"archive"`
	From    int64  `json:"from"`
	Until   int64  `json:"until"`
}

func init() {
	fw.Register(&fw.Prop{
		ID: "C09", Level: "exploration", Run: runC09, Replay: replayC09,
		Rule:        "a case = (source content, destination content, clock, archive selection, window, mode); contents enumerate every assignment of {absent, v1, v2} to every slot of both files; each case is run in both argument orders; non-trivial = the two files differ in at least one slot of the selected window.",
		Assumptions: []string{"two values are equal when both are NaN or when == holds (+0 equals -0)", "the listed difference is dest-src, NaN when either side has no value"},
		NeedsInstr:  []string{"cmd:time.Now"},
	})
}

var c09Palettes = [][2]float64{{1, 2}, {0, math.Copysign(0, -1)}, {0.1, math.Nextafter(0.1, 1)}, {math.NaN(), 3}, {1, 7}, {1, 9}} // the last two: see c09Choices

func c09Choices(p int) []SlotChoice {
	if p == len(c09Palettes)-1 {
		// a slot holding the point of a LATER lap of the ring (a writer whose clock is ahead of the reader's): no value
		return []SlotChoice{{Kind: "absent"}, {Kind: "value", V: 1}, {Kind: "newer", V: 9}}
	}
	if p == len(c09Palettes)-2 { // ... and of an EARLIER lap
		return []SlotChoice{{Kind: "absent"}, {Kind: "value", V: 1}, {Kind: "stale", V: 7}}
	}
	return []SlotChoice{{Kind: "absent"}, {Kind: "value", V: c09Palettes[p][0]}, {Kind: "value", V: c09Palettes[p][1]}}
}

func contentByCode(l wsp.Layout, now int64, ch []SlotChoice, code []int) []wsp.Ring {
	r := EmptyRings(l)
	k := 0
	for i, a := range l.Archs {
		for _, t := range SlotTimes(a, now) {
			c := ch[code[k]]
			k++
			cls := uint32(t/int64(a.Step)) % a.N
			switch c.Kind {
			case "value":
				r[i][cls] = wsp.Slot{T: uint32(t), V: c.V}
			case "stale":
				r[i][cls] = wsp.Slot{T: uint32(t - a.Ret()), V: c.V}
			case "newer":
				r[i][cls] = wsp.Slot{T: uint32(t + a.Ret()), V: c.V}
			}
		}
	}
	return r
}

func allCodes(n, base int) [][]int {
	var out [][]int
	code := make([]int, n)
	var rec func(int)
	rec = func(k int) {
		if k == n {
			out = append(out, append([]int{}, code...))
			return
		}
		for c := 0; c < base; c++ {
			code[k] = c
			rec(k + 1)
		}
	}
	rec(0)
	return out
}

type diffRec struct {
	Arch     int
	T        int64
	Src, Dst float64
}

func valEqual(a, b float64) bool {
	an, bn := math.IsNaN(a), math.IsNaN(b)
	return (an && bn) || (!an && !bn && a == b)
}

// expDiff computes the difference set from two model states.
func expDiff(l wsp.Layout, src, dst []wsp.Ring, sel int, from, until, now int64) (d []diffRec, ok bool) {
	s, ok1 := ExpRead(l, src, sel, from, until, now)
	t, ok2 := ExpRead(l, dst, sel, from, until, now)
	if !ok1 || !ok2 {
		return nil, false
	}
	for i := range s {
		if s[i] == nil {
			continue
		}
		for j := range s[i].Vals {
			if !valEqual(s[i].Vals[j], t[i].Vals[j]) {
				d = append(d, diffRec{i, s[i].Shape.From + int64(j)*s[i].Shape.Step, s[i].Vals[j], t[i].Vals[j]})
			}
		}
	}
	return d, true
}

func parseDiffLines(text string) (recs []diffRec, errLines, other int, bad string) {
	for _, r := range ParseLTSV(text) {
		switch {
		case r["srcVal"] != "" && r["destVal"] != "":
			var a int
			fmt.Sscan(r["archive"], &a)
			t, ok := ParseUTC(r["t"])
			sv, ok1 := ParseVal(r["srcVal"])
			dv, ok2 := ParseVal(r["destVal"])
			df, ok3 := ParseVal(r["destMinusSrc"])
			if !ok || !ok1 || !ok2 || !ok3 {
				return nil, 0, 0, "unparsable diff line: " + r["_line"]
			}
			want := dv - sv
			if math.IsNaN(sv) || math.IsNaN(dv) {
				want = math.NaN()
			}
			if !sameVal(df, want) && !(df == 0 && want == 0) {
				return nil, 0, 0, fmt.Sprintf("destMinusSrc is %v, want %v: %s", df, want, r["_line"])
			}
			recs = append(recs, diffRec{a, t, sv, dv})
		case r["err"] != "":
			errLines++
		default:
			other++
		}
	}
	return
}

func classify(err error, pn string) string {
	switch {
	case pn != "":
		return "panic"
	case err == nil:
		return "nil"
	case errors.Is(err, wcmd.ErrDiffFound):
		return "diff-found"
	case os.IsNotExist(err) || errors.Is(err, os.ErrNotExist):
		return "not-exist"
	}
	return "error"
}

func c09Eval(c *fw.Ctx, k c09Case) (sig, desc string, nontrivial bool) {
	ld := LayoutByTag(k.Layout)
	l := wsp.Layout{Archs: ld.Archs, Method: 2, XFF: 0}
	var src, dst []wsp.Ring
	if k.Mode != "big" {
		ch := c09Choices(k.Palette)
		src = contentByCode(l, k.Now, ch, k.Src)
		dst = contentByCode(l, k.Now, ch, k.Dst)
	}
	root := filepath.Join(c.Dir, "c09")
	os.RemoveAll(root)
	sdir, ddir := filepath.Join(root, "s"), filepath.Join(root, "d")
	os.MkdirAll(sdir, 0755)
	os.MkdirAll(ddir, 0755)
	sf := &BFile{L: l, Rings: src, Base: basePicks(k.Src, len(l.Archs))}
	df := &BFile{L: l, Rings: dst, Base: basePicks(k.Dst, len(l.Archs))}
	if k.Mode == "big" {
		// two completely filled files of 8000+40 slots that differ in every 997th slot, their rings rotated as given
		src, dst = EmptyRings(l), EmptyRings(l)
		for i, a := range l.Archs {
			for j, t := range SlotTimes(a, k.Now) {
				cls := uint32(t/int64(a.Step)) % a.N
				v := float64(j%50) + 0.25
				src[i][cls] = wsp.Slot{T: uint32(t), V: v}
				if j%997 == k.Palette {
					v = -1
				}
				dst[i][cls] = wsp.Slot{T: uint32(t), V: v}
			}
		}
		sf, df = &BFile{L: l, Rings: src, Base: k.Src}, &BFile{L: l, Rings: dst, Base: k.Dst}
		k.Mode = "pair"
	}
	until := k.Until
	if until == 0 {
		until = k.Now
	}
	ctx := fmt.Sprintf("diff layout %s now=%d palette=%d src=%v dest=%v mode=%s archive=%d from=%d until=%d", k.Layout, k.Now, k.Palette, k.Src, k.Dst, k.Mode, k.Archive, k.From, k.Until)
	out := filepath.Join(root, "out.txt")
	run := func(sb, sr, db, dr string) (string, string, string) {
		cmd := &wcmd.DiffCommand{SrcBase: sb, SrcRelPath: sr, DestBase: db, DestRelPath: dr, From: tsOf(k.From), Until: tsOf(k.Until), ArchiveID: k.Archive, TextOut: out}
		err, pn := RunCommand(k.Now, cmd)
		es := ""
		if err != nil {
			es = err.Error()
		}
		return classify(err, pn), readAndRemove(out), es + firstLine(pn)
	}
	switch k.Mode {
	case "pair":
		sf.Write(filepath.Join(sdir, "a.wsp"))
		df.Write(filepath.Join(ddir, "a.wsp"))
		want, ok := expDiff(l, src, dst, k.Archive, k.From, until, k.Now)
		nontrivial = len(want) > 0
		for dir := 0; dir < 2; dir++ {
			var cls, text, es string
			w := want
			if dir == 0 {
				cls, text, es = run(sdir, "a.wsp", ddir, "")
			} else {
				cls, text, es = run(ddir, "a.wsp", sdir, "a.wsp")
				w = nil
				for _, r := range want {
					w = append(w, diffRec{r.Arch, r.T, r.Dst, r.Src})
				}
			}
			order := []string{"", "/swapped"}[dir]
			if cls == "panic" {
				return "C09/panic" + order, ctx + ": " + es, nontrivial
			}
			if !ok {
				if cls == "nil" || cls == "diff-found" {
					return "C09/invalid-read-not-an-error" + order, ctx + ": result " + cls, nontrivial
				}
				continue
			}
			wantCls := "nil"
			if len(w) > 0 {
				wantCls = "diff-found"
			}
			if cls != wantCls {
				return fmt.Sprintf("C09/verdict/want-%s-got-%s%s", wantCls, cls, order), fmt.Sprintf("%s: verdict %s (%s), difference set has %d slots", ctx, cls, es, len(w)), nontrivial
			}
			got, _, _, bad := parseDiffLines(text)
			if bad != "" {
				return "C09/listing/line" + order, ctx + ": " + bad, nontrivial
			}
			if len(got) != len(w) {
				return "C09/listing/count" + order, fmt.Sprintf("%s: %d slots listed, difference set has %d (%v vs %v)", ctx, len(got), len(w), got, w), nontrivial
			}
			for i := range w {
				if got[i].Arch != w[i].Arch || got[i].T != w[i].T || !sameVal(got[i].Src, w[i].Src) || !sameVal(got[i].Dst, w[i].Dst) {
					return "C09/listing/slot" + order, fmt.Sprintf("%s: listed %v, want %v", ctx, got[i], w[i]), nontrivial
				}
			}
		}
		// a file compared with itself is always clean
		if cls, _, es := run(sdir, "a.wsp", sdir, ""); cls != "nil" && ok {
			return "C09/self-compare", ctx + ": comparing the source with itself gives " + cls + " " + es, nontrivial
		}
	case "missing-dest", "missing-src":
		nontrivial = true
		if k.Mode == "missing-dest" {
			sf.Write(filepath.Join(sdir, "a.wsp"))
		} else {
			df.Write(filepath.Join(ddir, "a.wsp"))
		}
		cls, text, es := run(sdir, "a.wsp", ddir, "")
		if cls != "diff-found" {
			return "C09/missing-side/" + cls, fmt.Sprintf("%s: a missing file must count as a reported difference, got %s %s", ctx, cls, es), true
		}
		if _, el, _, _ := parseDiffLines(text); el != 1 {
			return "C09/missing-side/not-reported", ctx + ": no err: line in the output: " + text, true
		}
	case "layout", "layout-points":
		nontrivial = true
		sf.Write(filepath.Join(sdir, "a.wsp"))
		other := LayoutByTag("L5")
		if k.Mode == "layout-points" { // same archive count and steps, only the last archive's point count differs
			other = LayoutDef{Archs: wsp.ParseLayout("1s:2s,2s:8s")}
		}
		(&BFile{L: wsp.Layout{Archs: other.Archs, Method: 2}, Rings: EmptyRings(wsp.Layout{Archs: other.Archs})}).Write(filepath.Join(ddir, "a.wsp"))
		for dir := 0; dir < 2; dir++ {
			a, b := sdir, ddir
			if dir == 1 {
				a, b = ddir, sdir
			}
			if cls, _, es := run(a, "a.wsp", b, ""); cls != "error" {
				return "C09/layout-mismatch/" + cls, fmt.Sprintf("%s: unequal layouts must be an error, got %s %s", ctx, cls, es), true
			}
		}
	case "glob":
		// three files: a equal, b = (src vs dest contents), c equal; optionally c missing in dest (Archive reused as flag via From<0)
		same := &BFile{L: l, Rings: src, Base: sf.Base}
		same.Write(filepath.Join(sdir, "m", "a.wsp"))
		same.Write(filepath.Join(ddir, "m", "a.wsp"))
		sf.Write(filepath.Join(sdir, "m", "b.wsp"))
		df.Write(filepath.Join(ddir, "m", "b.wsp"))
		same.Write(filepath.Join(sdir, "m", "c.wsp"))
		same.Write(filepath.Join(ddir, "m", "c.wsp"))
		want, _ := expDiff(l, src, dst, k.Archive, k.From, until, k.Now)
		nontrivial = len(want) > 0
		cls, text, es := run(sdir, "m/*.wsp", ddir, "")
		wantCls := "nil"
		if len(want) > 0 {
			wantCls = "diff-found"
		}
		if cls != wantCls {
			return fmt.Sprintf("C09/glob/verdict/want-%s-got-%s", wantCls, cls), fmt.Sprintf("%s: %s %s", ctx, cls, es), nontrivial
		}
		// the same run with the base directories spelled in other valid ways must not change anything
		for _, sp := range [][2]string{{sdir + "/", ddir + "/"}, {filepath.Dir(sdir) + "/./s", filepath.Dir(ddir) + "//d"}, {sdir + "/m/..", ddir}} {
			c2, t2, e2 := run(sp[0], "m/*.wsp", sp[1], "")
			if c2 != cls || c12Norm(t2) != c12Norm(text) {
				return "C09/glob/base-spelling", fmt.Sprintf("%s: with -src-base %q -dest-base %q the run gives %s %s and another listing than with the clean spelling (%s)", ctx, sp[0], sp[1], c2, e2, cls), nontrivial
			}
		}
		// the same files selected by patterns whose wildcard sits in the DIRECTORY part
		for _, pat := range []string{"?/*.wsp"} {
			c2, t2, e2 := run(sdir, pat, ddir, "")
			if c2 != cls || c12Norm(t2) != c12Norm(text) {
				return "C09/glob/directory-wildcard", fmt.Sprintf("%s: pattern %q gives %s %s and another listing than m/*.wsp (%s)", ctx, pat, c2, e2, cls), nontrivial
			}
		}
		// ... and ONLY there: the pattern selects the one differing file
		for _, pat := range []string{"*/b.wsp", "[lmn]/b.wsp"} {
			c2, t2, e2 := run(sdir, pat, ddir, "")
			g2, _, _, bad2 := parseDiffLines(t2)
			if c2 != wantCls || bad2 != "" || len(g2) != len(want) {
				return "C09/glob/directory-wildcard-only", fmt.Sprintf("%s: pattern %q gives %s %s with %d slots listed; the file it selects differs in %d slots", ctx, pat, c2, e2, len(g2), len(want)), nontrivial
			}
		}
		got, _, _, bad := parseDiffLines(text)
		if bad != "" || len(got) != len(want) {
			return "C09/glob/listing", fmt.Sprintf("%s: %d slots listed over the three files, want %d %s", ctx, len(got), len(want), bad), nontrivial
		}
		if n := strings.Count(text, "srcRel:"); n != 3 {
			return "C09/glob/not-every-file-compared", fmt.Sprintf("%s: %d files compared, 3 matched", ctx, n), nontrivial
		}
		if !strings.Contains(text, fmt.Sprintf("diffFound:%v", len(want) > 0)) {
			return "C09/glob/summary", ctx + ": finish line does not carry the verdict: " + text, nontrivial
		}
	}
	return "", "", nontrivial
}

func runC09(c *fw.Ctx) {
	ld := LayoutByTag("L4")
	l := wsp.Layout{Archs: ld.Archs}
	nslots := 0
	for _, a := range ld.Archs {
		nslots += int(a.N)
	}
	codes := allCodes(nslots, 3)
	clocks := Clocks(ld.Archs, false, []string{"mid"})
	clocks = []int64{clocks[1], clocks[len(clocks)-1]}
	rmax, r0 := l.MaxRet(), ld.Archs[0].Ret()
	c.R.Bounds["contents"] = fmt.Sprintf("all %d x %d (source, destination) contents of L4 (palette 0), every source against 27 destinations for palettes 1-3; thorough: all pairs for every palette", len(codes), len(codes))
	if c.Shard == 0 {
		// archives of many pages: windows far longer than any chunk a reader may use, every ring rotation class
		lh := LayoutByTag("LH")
		bnow := Clocks(lh.Archs, false, []string{"mid"})[1]
		c.R.Bounds["big"] = "LH (8000 + 40 slots, 24 pages), both files full, differing in every 997th slot, ring rotations {0,1,2539,5461,7999} x 3 windows x archive all/0"
		for ri, rot := range [][2]int{{0, 0}, {0, 1}, {2539, 0}, {5461, 7999}, {7999, 2539}} {
			for wi, w := range [][2]int64{{0, 0}, {bnow - 7990, bnow - 3}, {bnow - 6000, bnow - 100}} {
				k := c09Case{Layout: "LH", Now: bnow, Palette: (ri + wi) % 5, Src: []int{rot[0], ri % 2}, Dst: []int{rot[1], wi % 2}, Mode: "big", Archive: -(wi + ri + 1) % 2, From: w[0], Until: w[1]}
				sig, desc, nt := c09Eval(c, k)
				c.Count("evaluations", 1)
				if nt {
					c.Count("distinct_nontrivial", 1)
				}
				c.Outcome("big")
				if sig != "" {
					c.Violate(sig, clip(desc, 1500), 9000, k, "")
				}
			}
		}
	}
	for pal := range c09Palettes {
		for ci, now := range clocks {
			if pal > 0 && ci > 0 && !c.Thorough() {
				continue
			}
			// {now-3, now-2}: inside ONE slot of the coarser archive whatever the clock's parity (a zero-length range there)
			wins := [][2]int64{{0, 0}, {now - 2, now - 1}, {now - r0 - 1, 0}, {now - rmax - 4, now - rmax + 2}, {now - 3, now - 2}}
			for si, s := range codes {
				for di, d := range codes {
					if pal > 0 && !c.Thorough() && (di*7+si)%9 != 0 {
						continue
					}
					if !c.Mine() {
						continue
					}
					if c.Expired() {
						return
					}
					for _, arch := range []int{-1, 0, 1} {
						for wi, w := range wins {
							if arch != -1 && wi > 1 && (si+di)%3 != 0 {
								continue
							}
							k := c09Case{Layout: "L4", Now: now, Palette: pal, Src: s, Dst: d, Mode: "pair", Archive: arch, From: w[0], Until: w[1]}
							c09One(c, k)
						}
					}
					if (si+di)%5 == 0 {
						c09One(c, c09Case{Layout: "L4", Now: now, Palette: pal, Src: s, Dst: d, Mode: "glob", Archive: -1})
					}
					if di == 0 {
						for _, m := range []string{"missing-dest", "missing-src", "layout"} {
							c09One(c, c09Case{Layout: "L4", Now: now, Palette: pal, Src: s, Dst: s, Mode: m, Archive: -1})
						}
						for _, arch := range []int{-1, 0, 1} {
							for _, w := range wins {
								c09One(c, c09Case{Layout: "L4", Now: now, Palette: pal, Src: s, Dst: s, Mode: "layout-points", Archive: arch, From: w[0], Until: w[1]})
							}
						}
					}
				}
			}
		}
	}
}

func c09One(c *fw.Ctx, k c09Case) {
	sig, desc, nt := c09Eval(c, k)
	c.Count("evaluations", 1)
	if nt {
		c.Count("distinct_nontrivial", 1)
	}
	c.Outcome(k.Mode)
	if sig != "" {
		n := 0
		for _, x := range append(append([]int{}, k.Src...), k.Dst...) {
			if x != 0 {
				n++
			}
		}
		c.Violate(sig, desc, n, k, "")
	}
	if nt && k.Mode == "pair" && k.Archive == -1 {
		c.Sample(3, k)
	}
}

func replayC09(c *fw.Ctx, raw json.RawMessage) (bool, string) {
	var k c09Case
	if err := json.Unmarshal(raw, &k); err != nil {
		return false, err.Error()
	}
	sig, desc, _ := c09Eval(c, k)
	return sig != "", desc
}

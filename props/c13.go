package props

import (
	"bufio"
	"bytes"
	"encoding/binary"
	"encoding/json"
	"errors"
	"fmt"
	"math"
	"os"
	"os/exec"
	"path/filepath"
	"runtime/debug"
	"sort"
	"strings"
	"sync"
	"time"

	"github.com/anishathalye/porcupine"
	wt "github.com/hnakamur/whispertool"
	wcmd "github.com/hnakamur/whispertool/cmd"

	"verif/fw"
	"verif/vrt"
	"verif/wsp"
)

// C13 - exclusive access across handles.  Engine C: every interleaving (within
// the preemption bound) of 2-3 sessions on one file under the cooperative
// scheduler, with scheduling points at flock, at every page read/write of the
// page buffer and at its mutex; plus a sequential enumeration of every way an
// Open/Create fails after the descriptor exists, a process-level hold test and
// a free-running race-detector pass over the same bodies.

func init() {
	fw.Register(&fw.Prop{
		ID: "C13", Level: "model_checking", Run: runC13, Replay: replayC13,
		Rule: "states = complete executions (distinct schedules) explored by depth-first search over scheduler choices; transitions = scheduling points executed; traces_validated_against_impl = executions whose observation satisfied the oracle (counter history linearizable, reader snapshot uniform, handle lifetimes disjoint). evaluations/failed_opens = failing Open/Create variants followed by a non-blocking lock probe.",
		Assumptions: []string{"flock is arbitrated per open file description, so two handles in one process exercise what two processes exercise; a process-level hold test demonstrates it end to end", "scheduling points: flock, preadv/pwritev of the page buffer, its mutex, goroutine spawn; unsynchronised accesses between points are the race pass's business",
			"the race-detector pass is a detector over free-running schedules, not an enumeration"},
		NeedsInstr: []string{"whispertool:os.Getpagesize", "whispertool:syscall.Flock", "cmd:time.Now", "filebuffer:func preadvFull", "filebuffer:func pwritevFull", "filebuffer:import sync"},
	})
	fw.Children["c13hold"] = c13HoldChild
	fw.Children["racepass"] = racePassChild
}

const c13Now = int64(1700000004)

func c13Layout() wsp.Layout {
	return wsp.Layout{Archs: LayoutByTag("L6").Archs, Method: 2, XFF: 1}
}

// c13Initial: counter 0 in the FIRST slot of archive 0 (so it shares a page with the header's tail) and
// generation 0 in archives 0 and 2.
func c13Initial() []byte {
	l := c13Layout()
	r := EmptyRings(l)
	r[0][uint32(c13Now)%7] = wsp.Slot{T: uint32(c13Now), V: 0}
	t2 := c13Now - c13Now%8
	r[2][uint32(t2/8)%2] = wsp.Slot{T: uint32(t2), V: 0}
	return (&BFile{L: l, Rings: r}).Bytes()
}

type c13Op struct {
	client    int
	call, ret int
	out       float64
	err       string
}

func readCounter(db *wt.Whisper) (float64, error) {
	ts, err := db.FetchFromArchive(0, wt.Timestamp(c13Now-1), wt.Timestamp(c13Now), wt.Timestamp(c13Now))
	if err != nil {
		return 0, err
	}
	if ts == nil || len(ts.Values()) != 1 {
		return 0, fmt.Errorf("unexpected series %v", ts)
	}
	v := float64(ts.Values()[0])
	if math.IsNaN(v) {
		v = 0
	}
	return v, nil
}

func c13Scenarios(c *fw.Ctx) []*Scenario {
	path := filepath.Join(c.Dir, "c13.wsp")
	initial := c13Initial()
	incr := func(n int, page int, bound int, name string) *Scenario {
		return &Scenario{Name: name, Bound: bound, Make: func() ([]func(), func(*vrt.Sched) (string, string, string)) {
			vrt.SetPagesize(page)
			os.WriteFile(path, initial, 0644)
			ops := make([]c13Op, n)
			var bodies []func()
			for i := 0; i < n; i++ {
				i := i
				bodies = append(bodies, func() {
					op := c13Op{client: i, call: vrt.Step()}
					defer func() { op.ret = vrt.Step(); hmu.Lock(); ops[i] = op; hmu.Unlock() }()
					db, err := wt.Open(path)
					if err != nil {
						op.err = "open: " + err.Error()
						return
					}
					defer db.Close()
					v, err := readCounter(db)
					if err != nil {
						op.err = "read: " + err.Error()
						return
					}
					op.out = v
					if err := db.UpdatePointForArchive(0, wt.Timestamp(c13Now), wt.Value(v+1), wt.Timestamp(c13Now)); err != nil {
						op.err = "update: " + err.Error()
						return
					}
					if err := db.Sync(); err != nil {
						op.err = "sync: " + err.Error()
					}
				})
			}
			judge := func(s *vrt.Sched) (string, string, string) {
				if s.Deadlock || len(s.Panics) > 0 || s.Diverged != "" {
					return "", "", "aborted"
				}
				var outs []float64
				var pops []porcupine.Operation
				for _, op := range ops {
					if op.err != "" {
						return "C13/" + name + "/session-failed", op.err, "error"
					}
					outs = append(outs, op.out)
					pops = append(pops, porcupine.Operation{ClientId: op.client, Input: nil, Call: int64(op.call), Output: op.out, Return: int64(op.ret)})
				}
				b, _ := os.ReadFile(path)
				f, err := wsp.Parse(b)
				if err != nil {
					return "C13/" + name + "/file-damaged", err.Error(), "damaged"
				}
				final := f.Slots[0][0].V
				sort.Float64s(outs)
				outcome := fmt.Sprint("final=", final, " reads=", outs)
				model := porcupine.Model{
					Init: func() interface{} { return 0.0 },
					Step: func(state, in, out interface{}) (bool, interface{}) {
						return out.(float64) == state.(float64), state.(float64) + 1
					},
				}
				if final != float64(n) || !porcupine.CheckOperations(model, pops) {
					return "C13/" + name + "/lost-update", fmt.Sprintf("%d increment sessions: final counter %v, values read %v: the call/return history is not linearizable w.r.t. a counter", n, final, outs), outcome
				}
				return "", "", outcome
			}
			return bodies, judge
		}}
	}
	snapshot := func(bound int, withSecondWriter bool, name string) *Scenario {
		readOnly := strings.Contains(name, "readonly")
		return &Scenario{Name: name, Bound: bound, Make: func() ([]func(), func(*vrt.Sched) (string, string, string)) {
			vrt.SetPagesize(16)
			os.WriteFile(path, initial, 0644)
			var seen [][2]float64
			var errs []string
			addErr := func(e string) { hmu.Lock(); errs = append(errs, e); hmu.Unlock() }
			writer := func(g float64) func() {
				return func() {
					db, err := wt.Open(path)
					if err != nil {
						addErr(err.Error())
						return
					}
					defer db.Close()
					db.UpdatePointForArchive(0, wt.Timestamp(c13Now), wt.Value(g), wt.Timestamp(c13Now))
					db.UpdatePointForArchive(2, wt.Timestamp(c13Now), wt.Value(g), wt.Timestamp(c13Now))
					if err := db.Sync(); err != nil {
						addErr(err.Error())
					}
				}
			}
			reader := func() {
				var opts []wt.Option
				if readOnly {
					// a handle that only reads, opened read-only: locking is still on by default
					opts = append(opts, wt.WithOpenFileFlag(os.O_RDONLY))
				}
				db, err := wt.Open(path, opts...)
				if err != nil {
					addErr(err.Error())
					return
				}
				defer db.Close()
				a0, e0 := db.FetchFromArchive(0, wt.Timestamp(c13Now-1), wt.Timestamp(c13Now), wt.Timestamp(c13Now))
				a2, e2 := db.FetchFromArchive(2, wt.Timestamp(c13Now-8), wt.Timestamp(c13Now), wt.Timestamp(c13Now))
				if e0 != nil || e2 != nil || a0 == nil || a2 == nil || len(a0.Values()) != 1 || len(a2.Values()) != 1 {
					addErr(fmt.Sprint("reader: ", e0, e2, a0, a2))
					return
				}
				hmu.Lock()
				seen = append(seen, [2]float64{float64(a0.Values()[0]), float64(a2.Values()[0])})
				hmu.Unlock()
			}
			bodies := []func(){writer(7), reader}
			if withSecondWriter {
				bodies = append(bodies, writer(9))
			}
			judge := func(s *vrt.Sched) (string, string, string) {
				if s.Deadlock || len(s.Panics) > 0 || s.Diverged != "" {
					return "", "", "aborted"
				}
				if len(errs) > 0 {
					return "C13/" + name + "/session-failed", errs[0], "error"
				}
				for _, p := range seen {
					if p[0] != p[1] {
						return "C13/" + name + "/mixed-snapshot", fmt.Sprintf("a reader saw generation %v in archive 0 and %v in archive 2: pages from before and after a Sync", p[0], p[1]), fmt.Sprint(seen)
					}
				}
				return "", "", fmt.Sprint(seen)
			}
			return bodies, judge
		}}
	}
	lifetime := &Scenario{Name: "S3-handle-lifetimes", Bound: -1, Make: func() ([]func(), func(*vrt.Sched) (string, string, string)) {
		vrt.SetPagesize(16)
		os.WriteFile(path, initial, 0644)
		type iv struct{ openRet, closeCall int }
		ivs := make([]iv, 2)
		var errs []string
		body := func(i int) func() {
			return func() {
				db, err := wt.Open(path)
				if err != nil {
					hmu.Lock()
					errs = append(errs, err.Error())
					hmu.Unlock()
					return
				}
				ivs[i].openRet = vrt.Step()
				vrt.Point("hold", nil)
				// a write and a Sync in the middle of the handle's life: the lock must outlive them
				db.UpdatePointForArchive(0, wt.Timestamp(c13Now), wt.Value(i+1), wt.Timestamp(c13Now))
				db.Sync()
				vrt.Point("hold", nil)
				db.FetchFromArchive(2, wt.Timestamp(c13Now-8), wt.Timestamp(c13Now), wt.Timestamp(c13Now))
				vrt.Point("hold", nil)
				ivs[i].closeCall = vrt.Step()
				db.Close()
			}
		}
		judge := func(s *vrt.Sched) (string, string, string) {
			if s.Deadlock || len(s.Panics) > 0 || s.Diverged != "" {
				return "", "", "aborted"
			}
			if len(errs) > 0 {
				return "C13/S3/session-failed", errs[0], "error"
			}
			a, b := ivs[0], ivs[1]
			first := "A-first"
			if b.openRet < a.openRet {
				a, b = b, a
				first = "B-first"
			}
			if b.openRet < a.closeCall {
				return "C13/S3/second-open-returned-while-first-handle-open", fmt.Sprintf("handle lifetimes overlap: first [%d,%d], second opened at %d", a.openRet, a.closeCall, b.openRet), "overlap"
			}
			return "", "", first
		}
		return []func(){body(0), body(1)}, judge
	}}
	// S5: the first session comes from Create (the file does not exist yet); a second session tries to Open it.
	// The opener either finds no file at all, or - because Create holds the lock until Close - the complete synced file.
	creator := &Scenario{Name: "S5-create-vs-open", Bound: -1, Make: func() ([]func(), func(*vrt.Sched) (string, string, string)) {
		vrt.SetPagesize(16)
		os.Remove(path)
		l := c13Layout()
		var cerr, oerr string
		var seen float64 = -1
		type iv struct{ openRet, closeCall int }
		ivs := make([]iv, 2)
		create := func() {
			db, err := wt.Create(path, archList(l.Archs), wt.Sum, 1)
			if err != nil {
				cerr = err.Error()
				return
			}
			ivs[0].openRet = vrt.Step()
			db.UpdatePointForArchive(0, wt.Timestamp(c13Now), 5, wt.Timestamp(c13Now))
			if err := db.Sync(); err != nil {
				cerr = err.Error()
			}
			vrt.Point("hold", nil) // the synced file is on disk and the creating handle is still open
			ivs[0].closeCall = vrt.Step()
			db.Close()
		}
		oerrStep := 0
		open := func() {
			db, err := wt.Open(path)
			if err != nil {
				hmu.Lock()
				oerr = err.Error()
				oerrStep = vrt.Step()
				hmu.Unlock()
				return
			}
			ivs[1].openRet = vrt.Step()
			v, err := readCounter(db)
			hmu.Lock()
			if err != nil {
				oerr = "read: " + err.Error()
			} else {
				seen = v
			}
			hmu.Unlock()
			ivs[1].closeCall = vrt.Step()
			db.Close()
		}
		judge := func(s *vrt.Sched) (string, string, string) {
			if s.Deadlock || len(s.Panics) > 0 || s.Diverged != "" {
				return "", "", "aborted"
			}
			if cerr != "" {
				return "C13/S5/create-failed", cerr, "error"
			}
			switch {
			case oerr != "" && os.IsNotExist(errors.Unwrap(fmt.Errorf("%w", errNotExistIf(oerr)))):
				return "", "", "opener-found-no-file"
			case oerr != "" && (ivs[0].openRet == 0 || oerrStep <= ivs[0].openRet):
				// the opener met the file between its creation and the creator's lock (Create had not returned yet):
				// no handle was held at that moment, the opener got an error and holds nothing - not a property matter
				return "", "", "opener-failed-before-create-returned"
			case oerr != "":
				return "C13/S5/opener-did-not-wait-for-creating-handle", fmt.Sprintf("Create returned at step %d and its handle was closed at step %d; in between (step %d) another Open of the path returned %q instead of waiting", ivs[0].openRet, ivs[0].closeCall, oerrStep, oerr), "partial"
			case seen != 5:
				return "C13/S5/opener-saw-unsynced-state", fmt.Sprintf("the opener read %v, the creating session synced 5", seen), "stale"
			case ivs[1].openRet < ivs[0].closeCall:
				return "C13/S5/opened-while-creating-handle-open", fmt.Sprintf("opener's Open returned at %d, the creating handle was closed at %d", ivs[1].openRet, ivs[0].closeCall), "overlap"
			}
			return "", "", "opener-saw-complete-file"
		}
		return []func(){create, open}, judge
	}}
	// S6: the reader goes through the commands' read path (view; shared by copy's source side, sum and the server):
	// it too must see a session boundary
	cmdReader := &Scenario{Name: "S6-writer-vs-view-command", Bound: -1, Make: func() ([]func(), func(*vrt.Sched) (string, string, string)) {
		vrt.SetPagesize(16)
		os.WriteFile(path, initial, 0644)
		outp := filepath.Join(c.Dir, "c13view.txt")
		os.Remove(outp)
		var werr, rerr string
		writer := func() {
			db, err := wt.Open(path)
			if err != nil {
				werr = err.Error()
				return
			}
			defer db.Close()
			db.UpdatePointForArchive(0, wt.Timestamp(c13Now), 7, wt.Timestamp(c13Now))
			db.UpdatePointForArchive(2, wt.Timestamp(c13Now), 7, wt.Timestamp(c13Now))
			if err := db.Sync(); err != nil {
				werr = err.Error()
			}
		}
		reader := func() {
			cmd := &wcmd.ViewCommand{SrcBase: filepath.Dir(path), SrcRelPath: filepath.Base(path), ArchiveID: -1, ShowHeader: false, TextOut: outp}
			err, pn := RunCommand(c13Now, cmd)
			hmu.Lock()
			if err != nil || pn != "" {
				rerr = fmt.Sprint(err, firstLine(pn))
			}
			hmu.Unlock()
		}
		judge := func(s *vrt.Sched) (string, string, string) {
			if s.Deadlock || len(s.Panics) > 0 || s.Diverged != "" {
				return "", "", "aborted"
			}
			if werr != "" || rerr != "" {
				return "C13/S6/session-failed", werr + rerr, "error"
			}
			_, pts, _, bad := SplitOutput(readAndRemove(outp))
			if bad != "" {
				return "C13/S6/output", bad, "error"
			}
			a0, a2 := -1.0, -1.0
			for _, p := range pts {
				if p.Arch == 0 && p.T == c13Now {
					a0 = p.V
				}
				if p.Arch == 2 && p.T == c13Now-c13Now%8 {
					a2 = p.V
				}
			}
			if a0 != a2 {
				return "C13/S6/mixed-snapshot", fmt.Sprintf("view printed generation %v for archive 0 and %v for archive 2: pages from before and after a Sync", a0, a2), fmt.Sprint(a0, a2)
			}
			return "", "", fmt.Sprint(a0, a2)
		}
		return []func(){writer, reader}, judge
	}}
	// S8: a writing COMMAND is one session.  sum-copy (read destination, compare with the sum, write what differs, Sync)
	// runs next to a library session that changes one slot of the destination; whatever the interleaving, the file must
	// end as one of the two serial orders leaves it.
	var s8Serial [2][]byte
	cmdWriter := &Scenario{Name: "S8-sum-copy-vs-writer", Bound: 2, Make: func() ([]func(), func(*vrt.Sched) (string, string, string)) {
		vrt.SetPagesize(4096)
		ld := LayoutByTag("L4")
		l4 := wsp.Layout{Archs: ld.Archs, Method: 2, XFF: 0}
		now := int64(c13Now | 1) // odd: the two newest finest slots share one coarser slot
		root := filepath.Join(c.Dir, "c13s8")
		spath, dpath := filepath.Join(root, "s", "it", "x", "a.wsp"), filepath.Join(root, "d", "it", "x", "sum.wsp")
		prepare := func() {
			os.RemoveAll(root)
			src, dst := EmptyRings(l4), EmptyRings(l4)
			put := func(r []wsp.Ring, a int, t int64, v float64) {
				st := int64(l4.Archs[a].Step)
				t -= t % st
				r[a][uint32(t/st)%l4.Archs[a].N] = wsp.Slot{T: uint32(t), V: v}
			}
			put(src, 0, now-1, 1) // P: equal on both sides
			put(src, 0, now, 1)   // Q: missing in the destination
			put(src, 1, now, 60)  // the coarser slot over P and Q: not their aggregate, equal on both sides
			put(dst, 0, now-1, 1)
			put(dst, 1, now, 60)
			(&BFile{L: l4, Rings: src}).Write(spath)
			(&BFile{L: l4, Rings: dst}).Write(dpath)
		}
		var errs []string
		addErr := func(e string) { hmu.Lock(); errs = append(errs, e); hmu.Unlock() }
		command := func() {
			cmd := &wcmd.SumCopyCommand{SrcBase: filepath.Join(root, "s"), DestBase: filepath.Join(root, "d"), ItemPattern: "it/*", SrcPattern: "*.wsp", DestRelPath: "sum.wsp",
				AggregationMethod: wt.Sum, ArchiveInfoList: archList(l4.Archs), ArchiveID: -1, TextOut: ""}
			if err, pn := RunCommand(now, cmd); err != nil || pn != "" {
				addErr(fmt.Sprint("sum-copy: ", err, firstLine(pn)))
			}
		}
		writer := func() {
			db, err := wt.Open(dpath)
			if err != nil {
				addErr(err.Error())
				return
			}
			defer db.Close()
			db.UpdatePointForArchive(0, wt.Timestamp(now-1), 5, wt.Timestamp(now))
			if err := db.Sync(); err != nil {
				addErr(err.Error())
			}
		}
		if s8Serial[0] == nil { // the two serial orders, no scheduler installed
			prepare()
			command()
			writer()
			s8Serial[0], _ = os.ReadFile(dpath)
			prepare()
			writer()
			command()
			s8Serial[1], _ = os.ReadFile(dpath)
			errs = nil
		}
		prepare()
		judge := func(s *vrt.Sched) (string, string, string) {
			if s.Deadlock || len(s.Panics) > 0 || s.Diverged != "" {
				return "", "", "aborted"
			}
			if len(errs) > 0 {
				return "C13/S8/session-failed", errs[0], "error"
			}
			got, _ := os.ReadFile(dpath)
			for i, ser := range s8Serial {
				if bytes.Equal(got, ser) {
					return "", "", fmt.Sprint("serial-order-", i)
				}
			}
			show := func(b []byte) string {
				f, err := wsp.Parse(b)
				if err != nil {
					return err.Error()
				}
				r, _ := f.Rings()
				e, _ := ExpRead(l4, r, -1, 0, now, now)
				return fmt.Sprint(e[0].Vals, e[1].Vals)
			}
			return "C13/S8/not-serializable", fmt.Sprintf("sum-copy next to a session writing one slot of its destination: the file ends as %s; sum-copy first gives %s, the writer first gives %s", show(got), show(s8Serial[0]), show(s8Serial[1])), "neither"
		}
		return []func(){command, writer}, judge
	}}
	// S9: the session of a command that CREATES its destination.  copy into a missing destination next to a library
	// session that opens that path and writes one slot: either that session finds no (complete) file and fails, or it
	// waits for the creator; an update it reports as stored is never lost.
	var s9Refs [2][]byte // copy alone; copy, then the writer
	cmdCreator := &Scenario{Name: "S9-copy-creating-vs-writer", Bound: 2, Make: func() ([]func(), func(*vrt.Sched) (string, string, string)) {
		vrt.SetPagesize(4096)
		ld := LayoutByTag("L4")
		l4 := wsp.Layout{Archs: ld.Archs, Method: 2, XFF: 0}
		now := int64(c13Now | 1)
		root := filepath.Join(c.Dir, "c13s9")
		spath, dpath := filepath.Join(root, "s", "a.wsp"), filepath.Join(root, "d", "a.wsp")
		prepare := func() {
			os.RemoveAll(root)
			src := EmptyRings(l4)
			src[0][uint32(now)%l4.Archs[0].N] = wsp.Slot{T: uint32(now), V: 1}
			(&BFile{L: l4, Rings: src}).Write(spath)
			os.MkdirAll(filepath.Dir(dpath), 0755)
		}
		var cmdErr string
		writerStored := false
		command := func() {
			cmd := &wcmd.CopyCommand{SrcBase: filepath.Join(root, "s"), SrcRelPath: "a.wsp", DestBase: filepath.Join(root, "d"), AggregationMethod: wt.Sum, ArchiveInfoList: archList(l4.Archs), ArchiveID: -1, TextOut: ""}
			if err, pn := RunCommand(now, cmd); err != nil || pn != "" {
				hmu.Lock()
				cmdErr = fmt.Sprint("copy: ", err, firstLine(pn))
				hmu.Unlock()
			}
		}
		writer := func() {
			db, err := wt.Open(dpath)
			if err != nil {
				return // no file yet, or the creation window (see S5): this session stored nothing
			}
			defer db.Close()
			if db.UpdatePointForArchive(0, wt.Timestamp(now-1), 5, wt.Timestamp(now)) == nil && db.Sync() == nil {
				hmu.Lock()
				writerStored = true
				hmu.Unlock()
			}
		}
		if s9Refs[0] == nil {
			prepare()
			command()
			s9Refs[0], _ = os.ReadFile(dpath)
			writer()
			s9Refs[1], _ = os.ReadFile(dpath)
			cmdErr, writerStored = "", false
		}
		prepare()
		judge := func(s *vrt.Sched) (string, string, string) {
			if s.Deadlock || len(s.Panics) > 0 || s.Diverged != "" {
				return "", "", "aborted"
			}
			if cmdErr != "" {
				return "C13/S9/session-failed", cmdErr, "error"
			}
			got, _ := os.ReadFile(dpath)
			want, which := s9Refs[0], "copy-alone"
			if writerStored {
				want, which = s9Refs[1], "copy-then-writer"
			}
			if !bytes.Equal(got, want) {
				return "C13/S9/update-lost-or-mixed", fmt.Sprintf("copy creating its destination next to a session that reported its update stored=%v: the file does not equal what %s leaves", writerStored, which), "differs"
			}
			return "", "", which
		}
		return []func(){command, writer}, judge
	}}
	b2, b3 := -1, 2 // two-thread scenarios: every interleaving; three threads: preemption bound
	if c.Thorough() {
		b2, b3 = -1, -1 // every interleaving, also for three threads
	}
	return []*Scenario{
		incr(2, 16, b2, "S1-two-writers-page16"),
		incr(2, 4096, -1, "S1-two-writers-page4096"),
		incr(3, 4096, b3, "S1-three-writers-page4096"),
		incr(3, 16, b3-1, "S1-three-writers-page16"),
		snapshot(b2, false, "S2-writer-reader"),
		snapshot(b3-1, true, "S2-two-writers-reader"),
		snapshot(b2, false, "S2-writer-readonly-reader"),
		lifetime,
		creator,
		cmdReader,
		cmdWriter,
		cmdCreator,
	}
}

// ---- S4: every way an Open/Create fails after the descriptor exists

type c13FailCase struct {
	Kind string `json:"kind"` // truncated | header-field | create-readonly
	N    int    `json:"n"`
	V    uint32 `json:"v"`
}

func fdsPointingAt(path string) int {
	n := 0
	ents, _ := os.ReadDir("/proc/self/fd")
	for _, e := range ents {
		if t, err := os.Readlink("/proc/self/fd/" + e.Name()); err == nil && t == path {
			n++
		}
	}
	return n
}

func c13FailEval(c *fw.Ctx, k c13FailCase) (sig, desc string, failed bool) {
	vrt.SetPagesize(4096)
	path := filepath.Join(c.Dir, "c13fail.wsp")
	os.Remove(path)
	good := c13Initial()
	old := debug.SetGCPercent(-1) // no finalizer may hide a leaked descriptor
	defer debug.SetGCPercent(old)
	var err error
	switch k.Kind {
	case "truncated":
		os.WriteFile(path, good[:k.N], 0644)
		var db *wt.Whisper
		db, err = wt.Open(path)
		if err == nil {
			db.Close()
		}
	case "header-field":
		b := append([]byte{}, good...)
		binary.BigEndian.PutUint32(b[4*k.N:], k.V)
		os.WriteFile(path, b, 0644)
		var db *wt.Whisper
		db, err = wt.Open(path)
		if err == nil {
			db.Close()
		}
	case "big-header":
		// a header that does not fit into one page: valid metadata, N archive entries (all zero: invalid), file long enough
		b := make([]byte, 16+12*k.N+4096)
		copy(b, good[:16])
		binary.BigEndian.PutUint32(b[12:], uint32(k.N))
		os.WriteFile(path, b, 0644)
		if p, txt := fw.Guard(func() {
			var db *wt.Whisper
			db, err = wt.Open(path)
			if err == nil {
				db.Close()
			}
		}); p {
			err = fmt.Errorf("Open panicked: %s", firstLine(txt))
		}
	case "create-readonly":
		var db *wt.Whisper
		db, err = wt.Create(path, archList(c13Layout().Archs), wt.Sum, 0, wt.WithOpenFileFlag(os.O_RDONLY|os.O_CREATE|os.O_EXCL))
		if err == nil {
			db.Close()
		}
	}
	if err == nil {
		return "", "", false
	}
	ctx := fmt.Sprintf("%s n=%d v=%d (%v)", k.Kind, k.N, k.V, err)
	if !vrt.ProbeLockFree(path) {
		return "C13/S4/failed-open-left-lock/" + k.Kind, ctx + ": after the failed call a non-blocking flock on a fresh descriptor of the path is refused", true
	}
	if n := fdsPointingAt(path); n > 0 {
		return "C13/S4/failed-open-left-descriptor/" + k.Kind, fmt.Sprintf("%s: %d descriptor(s) of the path are still open", ctx, n), true
	}
	return "", "", true
}

func c13Fails(c *fw.Ctx) {
	good := c13Initial()
	var cases []c13FailCase
	for n := 0; n < len(good); n++ {
		cases = append(cases, c13FailCase{Kind: "truncated", N: n})
	}
	for f := 0; f < 13; f++ {
		for _, v := range e32 {
			cases = append(cases, c13FailCase{Kind: "header-field", N: f, V: v})
		}
	}
	cases = append(cases, c13FailCase{Kind: "create-readonly"})
	for _, n := range []int{340, 341, 342, 400, 1000, 5000} {
		cases = append(cases, c13FailCase{Kind: "big-header", N: n})
	}
	for i, k := range cases {
		if i%c.Of != c.Shard {
			continue
		}
		sig, desc, failed := c13FailEval(c, k)
		c.Count("evaluations", 1)
		if failed {
			c.Count("failed_opens_probed", 1)
			c.Count("distinct_nontrivial", 1)
		}
		if sig != "" {
			c.Violate(sig, desc, k.N, k, "")
		}
	}
}

// ---- process level

func c13HoldChild(args []string) {
	db, err := wt.Open(args[0])
	if err != nil {
		fmt.Println("error", err)
		return
	}
	fmt.Println("opened")
	bufio.NewReader(os.Stdin).ReadString('\n')
	db.Close()
	fmt.Println("closed")
}

func c13Process(c *fw.Ctx) {
	self, _ := os.Executable()
	path := filepath.Join(c.Dir, "c13proc.wsp")
	os.WriteFile(path, c13Initial(), 0644)
	// (a) a child process holds the handle; Open in this process must not return
	cmd := exec.Command(self, "child", "c13hold", path)
	stdin, _ := cmd.StdinPipe()
	stdout, _ := cmd.StdoutPipe()
	if err := cmd.Start(); err != nil {
		c.Inconclusive("process-level test: cannot start child: " + err.Error())
		return
	}
	rd := bufio.NewReader(stdout)
	line, _ := rd.ReadString('\n')
	if line != "opened\n" {
		c.Inconclusive("process-level test: child did not open the file: " + line)
		cmd.Process.Kill()
		return
	}
	done := make(chan error, 1)
	go func() {
		db, err := wt.Open(path)
		if err == nil {
			db.Close()
		}
		done <- err
	}()
	c.Count("process_level_checks", 1)
	select {
	case <-done:
		c.Violate("C13/process/second-open-returned-while-other-process-holds-handle", "Open returned while a handle held by another process was still open", 1, c13FailCase{Kind: "process"}, "")
	case <-time.After(400 * time.Millisecond):
	}
	fmt.Fprintln(stdin)
	select {
	case <-done:
	case <-time.After(60 * time.Second):
		c.Inconclusive("process-level test: Open did not return within 60 s after the holder closed")
	}
	cmd.Wait()
	// (b) this process holds the handle; the child's Open must wait
	db, err := wt.Open(path)
	if err != nil {
		c.Inconclusive("process-level test: " + err.Error())
		return
	}
	cmd = exec.Command(self, "child", "c13hold", path)
	stdin, _ = cmd.StdinPipe()
	stdout, _ = cmd.StdoutPipe()
	cmd.Start()
	got := make(chan string, 1)
	go func() { l, _ := bufio.NewReader(stdout).ReadString('\n'); got <- l }()
	c.Count("process_level_checks", 1)
	select {
	case l := <-got:
		if l == "opened\n" {
			c.Violate("C13/process/other-process-opened-while-handle-held", "another process opened the file while this process held a handle", 1, c13FailCase{Kind: "process"}, "")
		}
	case <-time.After(400 * time.Millisecond):
	}
	db.Close()
	select {
	case <-got:
	case <-time.After(60 * time.Second):
	}
	fmt.Fprintln(stdin)
	cmd.Wait()
}

// ---- S7: a command's sessions end with the command.  Every command of the C16 grid (ok environment and the
// faulty ones) is executed in-process; when Execute has returned, no file may still be locked through a handle the
// command opened - a later Open of that path in the same process would wait for ever.
func c13Commands(c *fw.Ctx) {
	TrackLocks = true
	defer func() { TrackLocks = false }()
	n := 0
	reported := map[string]bool{}
	for _, world := range []int{0, 1, 5} {
		for _, cmd := range c16Cmds {
			for _, arch := range []int{-1, 0, 2} {
				for _, win := range []string{"default", "past", "beyond-all", "inverted"} {
					if cmd == "generate" && (arch != -1 || win != "default") {
						continue
					}
					for _, env := range c16Envs {
						if ((env == "generate-dest-exists" || env == "generate-no-fill") && cmd != "generate") || (cmd == "generate" && strings.HasPrefix(env, "src-")) {
							continue
						}
						if !c.Mine() {
							continue
						}
						k := c16Case{World: world, Cmd: cmd, Archive: arch, Window: win, TextOut: "none", Env: env}
						LockLeaks = nil
						c16Eval(c, k)
						n++
						c.Count("command_sessions", 1)
						if len(LockLeaks) > 0 {
							sig := "C13/S7-command-sessions/lock-left-behind/" + cmd
							if !reported[sig] {
								reported[sig] = true
								c.Violate(sig, fmt.Sprintf("%s (world %d, archive %d, window %s, environment %s) returned, but %s is still locked through a handle the command opened: a later Open in this process waits for ever", cmd, world, arch, win, env, filepath.Base(LockLeaks[0])), 10, c13CmdCase{Kind: "command", Case: k}, "")
							}
						}
					}
				}
			}
		}
	}
}

// ---- S10: a command that reads one file reads it in ONE session.  For view, view-raw and diff (local and through the
// server) the lock acquisitions on the source file are counted; a complete writer session (open, one point into every
// archive, close) is then placed at every boundary: before the first acquisition, between each two, after the last.
// Whatever the command prints must be what it prints on the file before the writer or on the file after it.
type c13ReadCase struct {
	Kind     string `json:"kind"` // reader-sessions
	Cmd      string `json:"cmd"`
	Remote   bool   `json:"remote"`
	Boundary int    `json:"boundary"`
}

const c13ReadNow = int64(1600000016)

func c13ReadEval(c *fw.Ctx, cmdName string, remote bool, boundary int) (out string, acquisitions int, ok bool) {
	vrt.SetPagesize(4096)
	l := wsp.Layout{Archs: LayoutByTag("L6").Archs, Method: 2, XFF: 0}
	base := filepath.Join(c.Dir, "c13read")
	sbase := base
	rel := "s/a.wsp"
	if remote {
		url, root := c12Server(c)
		if url == "" {
			return "", 0, false
		}
		base, sbase = filepath.Join(root, "c13read"), url
		rel = "c13read/s/a.wsp"
	}
	os.RemoveAll(base)
	p := filepath.Join(base, "s", "a.wsp")
	(&BFile{L: l, Rings: c17Rings(l, 0)}).Write(p)
	(&BFile{L: l, Rings: c17Rings(l, 1)}).Write(filepath.Join(base, "d", rel))
	if rp, err := filepath.EvalSymlinks(p); err == nil {
		p = rp
	}
	writer := func() {
		db, err := wt.Open(p)
		if err != nil {
			return
		}
		for i := range l.Archs {
			db.UpdatePointForArchive(i, wt.Timestamp(c13ReadNow), wt.Value(70.5+float64(i)), wt.Timestamp(c13ReadNow))
		}
		db.Sync()
		db.Close()
	}
	outp := filepath.Join(c.Dir, "c13read-out.txt")
	var cmd Executor
	switch cmdName {
	case "view":
		cmd = &wcmd.ViewCommand{SrcBase: sbase, SrcRelPath: rel, ArchiveID: -1, Until: wt.Timestamp(c13ReadNow), TextOut: outp}
	case "view-raw":
		cmd = &wcmd.ViewRawCommand{SrcBase: sbase, SrcRelPath: rel, ArchiveID: -1, Until: wt.Timestamp(c13ReadNow), TextOut: outp}
	case "diff":
		cmd = &wcmd.DiffCommand{SrcBase: sbase, SrcRelPath: rel, DestBase: filepath.Join(base, "d"), ArchiveID: -1, Until: wt.Timestamp(c13ReadNow), TextOut: outp}
	}
	var mu sync.Mutex
	n := 0
	vrt.SetOnLock(func(path string) {
		if path != p {
			return
		}
		mu.Lock()
		k := n
		n++
		mu.Unlock()
		if k == boundary {
			writer()
		}
	})
	err, pn := RunCommand(c13ReadNow, cmd)
	vrt.SetOnLock(nil)
	if boundary >= n && boundary < 1<<20 {
		writer() // the boundary after the last acquisition: the writer runs when the command is done
	}
	return classify(err, pn) + "\n" + readAndRemove(outp), n, true
}

func c13Readers(c *fw.Ctx) {
	for _, cmdName := range []string{"view", "view-raw", "diff"} {
		for _, remote := range []bool{false, true} {
			if !c.Mine() {
				continue
			}
			before, n, ok := c13ReadEval(c, cmdName, remote, 1<<20) // no writer at all
			if !ok {
				continue
			}
			after, _, _ := c13ReadEval(c, cmdName, remote, 0) // the writer before the first acquisition
			if n == 0 || before == after {
				c.Count("reader_sessions_not_observable", 1)
				continue
			}
			c.Count("reader_commands", 1)
			c.Count("reader_lock_acquisitions", int64(n))
			for b := 1; b <= n; b++ {
				got, _, _ := c13ReadEval(c, cmdName, remote, b)
				c.Count("reader_writer_placements", 1)
				want := "the output on the file before the writer"
				if b < n && (got == before || got == after) {
					continue
				}
				if b == n && got == before {
					continue
				}
				where := "local"
				if remote {
					where = "remote"
				}
				sig := "C13/S10-reader-one-session/" + cmdName + "/" + where
				if b < n {
					want = "the output before or the output after the writer"
				}
				c.Violate(sig, fmt.Sprintf("%s (%s source, all archives) takes the lock on the source %d times; with a complete writer session placed before acquisition %d it prints neither %s: a mixture of two states of the file", cmdName, where, n, b+1, want), 10, c13ReadCase{Kind: "reader-sessions", Cmd: cmdName, Remote: remote, Boundary: b}, "")
				break
			}
		}
	}
}

type c13CmdCase struct {
	Kind string  `json:"kind"`
	Case c16Case `json:"case"`
}

func runC13(c *fw.Ctx) {
	c13Fails(c)
	c13Commands(c)
	c13Readers(c)
	scs := c13Scenarios(c)
	for _, sc := range scs {
		ExploreScenario(c, "C13", sc)
		if c.Shard == 0 {
			c.Sample(4, map[string]any{"scenario": sc.Name, "preemption_bound": sc.Bound, "coverage": c.R.Bounds["scenario:"+sc.Name]})
		}
	}
	if c.Shard == c.Of-1 {
		c13Process(c)
		RacePass(c, "C13")
	}
	c.Count("flock_seam_calls", vrt.FlockCalls.Load())
}

func replayC13(c *fw.Ctx, raw json.RawMessage) (bool, string) {
	var f c13FailCase
	if json.Unmarshal(raw, &f) == nil && f.Kind != "" {
		if f.Kind == "process" {
			return false, "process-level cases are re-run by the check itself"
		}
		if f.Kind == "reader-sessions" {
			var rc c13ReadCase
			json.Unmarshal(raw, &rc)
			before, n, ok := c13ReadEval(c, rc.Cmd, rc.Remote, 1<<20)
			if !ok {
				return false, "no server"
			}
			after, _, _ := c13ReadEval(c, rc.Cmd, rc.Remote, 0)
			got, _, _ := c13ReadEval(c, rc.Cmd, rc.Remote, rc.Boundary)
			bad := got != before && (got != after || rc.Boundary >= n)
			return bad, fmt.Sprintf("%d lock acquisitions on the source; writer before acquisition %d: output equals before=%v after=%v", n, rc.Boundary+1, got == before, got == after)
		}
		if f.Kind == "command" {
			var cc c13CmdCase
			json.Unmarshal(raw, &cc)
			TrackLocks, LockLeaks = true, nil
			defer func() { TrackLocks = false }()
			c16Eval(c, cc.Case)
			return len(LockLeaks) > 0, fmt.Sprint("files left locked: ", LockLeaks)
		}
		sig, desc, _ := c13FailEval(c, f)
		return sig != "", desc
	}
	return replayScenario(c, raw, c13Scenarios)
}

// ---- free-running race pass (same bodies, no scheduler, race-detector build)

func racePassChild(args []string) {
	prop, dir := args[0], args[1]
	c := &fw.Ctx{Dir: dir, Tier: "quick", Of: 1, R: fw.NewResult(), Deadline: time.Now().Add(5 * time.Minute)}
	var scs []*Scenario
	if prop == "C13" {
		scs = c13Scenarios(c)
	} else {
		scs = c17Scenarios(c)
	}
	for _, sc := range scs {
		reps := 30
		if len(sc.Name) > 2 && sc.Name[:2] == "F-" {
			reps = 200 // cheap: shared-handle fetches
		}
		if sc.Name == "F-long-windows" {
			reps = 40
		}
		if strings.Contains(sc.Name, "-bad-") || strings.Contains(sc.Name, "-oor") {
			reps = 300 // failing requests return at once: many repetitions to overlap them
		}
		for rep := 0; rep < reps; rep++ {
			bodies, judge := sc.Make()
			var wg sync.WaitGroup
			for _, b := range bodies {
				wg.Add(1)
				b := b
				go func() {
					defer wg.Done()
					defer func() { recover() }()
					b()
				}()
			}
			wg.Wait()
			judge(&vrt.Sched{}) // releases what Make acquired (handles); its verdict is not used in this pass
		}
	}
	fmt.Println("racepass done")
}

// errNotExistIf maps the text of a not-exist error back to os.ErrNotExist (the scenario records error texts only).
func errNotExistIf(text string) error {
	if strings.Contains(text, "no such file or directory") {
		return os.ErrNotExist
	}
	return errors.New(text)
}

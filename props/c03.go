package props

import (
	"encoding/json"
	"fmt"
	"math"

	"verif/fw"
	"verif/wsp"
)

// C03 - write acceptance and routing.  From every core state: every single
// update with ages across all retention boundaries, and every batch of <=3
// points (any order, repeated ages) plus structured mixtures of in-range and
// too-old points, for "best" and for every named archive.  Oracle:
// model.SingleAccepted / model.Route on the parsed raw slots of every archive.

func init() {
	fw.Register(&fw.Prop{
		ID: "C03", Level: "model_checking", Run: runC03,
		Replay: func(c *fw.Ctx, raw json.RawMessage) (bool, string) { return ReplayTransition(c, raw, c03Judge) },
		Rule:   "states = distinct (file bytes, clock); transitions = real single/batch updates with routing-relevant ages, validated when the accept/reject result and every directly written slot of every archive agree with the routing model and no dropped point shows up anywhere.",
		Assumptions: []string{"future-dated batch points have no age and are outside the statement: not generated", "same-slot points with different timestamps are only supplied oldest first (the two readings of 'supplied last' agree there)",
			"xff=1 / sum keeps propagation rare; slots written by propagation are C02's business"},
		NeedsInstr: []string{"whispertool:os.Getpagesize"},
	})
}

func c03Gen(archs []wsp.Arch) func(AState, int) []AOp {
	return func(st AState, d int) []AOp {
		return []AOp{
			{Kind: "W1", Arch: -1, Ages: []int64{0}, Vals: []float64{Vals[d%3]}},
			denseBatch(archs[0], 0),
			{Kind: "ADV", D: 1},
			{Kind: "ADV", D: int64(archs[len(archs)-1].Step)},
		}
	}
}

func c03Full(archs []wsp.Arch) func(AState) []AOp {
	all := Ages(archs)
	var bset []int64
	bset = append(bset, 0, 1)
	for _, a := range archs {
		bset = append(bset, a.Ret()-1, a.Ret(), a.Ret()+1)
	}
	bset = dedupAges(bset, 0, 1<<40)
	return func(st AState) []AOp {
		var ops []AOp
		// ages whose difference does not fit 31 bits (a timestamp near the epoch seen from a clock after 2038)
		huge := []int64{1<<31 - 1, 1 << 31, 1<<31 + 13, st.Now - 1, st.Now - 86400}
		for _, age := range huge {
			if age > all[len(all)-1] {
				ops = append(ops, AOp{Kind: "W1", Arch: -1, Ages: []int64{age}, Vals: []float64{4}})
				ops = append(ops, AOp{Kind: "WB", Arch: -1, Ages: []int64{age, 0}, Vals: []float64{7, 1}})
			}
		}
		for _, age := range all {
			ops = append(ops, AOp{Kind: "W1", Arch: -1, Ages: []int64{age}, Vals: []float64{4}})
			ops = append(ops, AOp{Kind: "W1G", Arch: -1, Ages: []int64{age}, Vals: []float64{-2}})
		}
		targets := []int{-1}
		for i := range archs {
			targets = append(targets, i)
		}
		for _, tg := range targets {
			step := int64(archs[0].Step)
			for n := 1; n <= 3; n++ {
				for _, sq := range seqs(bset, n) {
					amb := false
					for _, a := range archs {
						amb = amb || ambiguousOrder(int64(a.Step), st.Now, sq)
					}
					_ = step
					if amb {
						continue
					}
					ops = append(ops, AOp{Kind: "WB", Arch: tg, Ages: sq, Vals: Vals[:n]})
					if tg == -1 && n <= 2 {
						// the same batch through the clock-reading wrapper UpdateMany (batches of one point included)
						ops = append(ops, AOp{Kind: "WBG", Arch: -1, Ages: sq, Vals: Vals[:n]})
					}
				}
			}
			// structured mixtures: dense archive-0 batch plus one too-old point, in several orders
			d := denseBatch(archs[0], tg)
			for _, extra := range []int64{archs[0].Ret(), archs[len(archs)-1].Ret(), archs[len(archs)-1].Ret() + 1} {
				m1 := AOp{Kind: "WB", Arch: tg, Ages: append([]int64{extra}, d.Ages...), Vals: append([]float64{7}, d.Vals...)}
				m2 := AOp{Kind: "WB", Arch: tg, Ages: append(append([]int64{}, d.Ages...), extra), Vals: append(append([]float64{}, d.Vals...), 7)}
				ops = append(ops, m1, m2)
				if len(d.Ages) > 2 { // rotated
					k := len(d.Ages) / 2
					ages := append(append(append([]int64{}, d.Ages[k:]...), extra), d.Ages[:k]...)
					vals := append(append(append([]float64{}, d.Vals[k:]...), 7), d.Vals[:k]...)
					ops = append(ops, AOp{Kind: "WB", Arch: tg, Ages: ages, Vals: vals})
				}
			}
			ops = append(ops, d)
		}
		// one timestamp supplied twice, the LAST time without a value (NaN): the one supplied last is the one stored
		for _, tg := range targets {
			for _, age := range []int64{0, 1, int64(archs[0].Step)} {
				ops = append(ops, AOp{Kind: "WB", Arch: tg, Ages: []int64{age, age + 2*int64(archs[0].Step), age}, Vals: []float64{4, 1, NaNVal}})
				ops = append(ops, AOp{Kind: "WB", Arch: tg, Ages: []int64{age, age}, Vals: []float64{NaNVal, 4}})
			}
		}
		g := AOp{Kind: "WBG", Arch: -1, Ages: []int64{archs[0].Ret(), 1, 0}, Vals: []float64{7, 1, -2}}
		ops = append(ops, g)
		return ops
	}
}

func hasTooOld(t *Trans) string {
	for _, age := range t.Op.Ages {
		for _, a := range t.Cfg.Archs {
			if age >= a.Ret() {
				return "+some-point-too-old-for-an-archive"
			}
		}
	}
	return ""
}

func named(t *Trans) string {
	if t.Op.Arch < 0 {
		return "best"
	}
	return "named"
}

func c03Judge(t *Trans) (string, string) {
	if t.Obs.OpenErr != "" {
		return "", ""
	}
	ctx := fmt.Sprintf("layout %s now=%d %s", t.Cfg.Spec, t.Pre.Now, t.Op)
	single := t.Op.Kind == "W1" || t.Op.Kind == "W1G"
	kind := "batch"
	if single {
		kind = "single"
	}
	if t.Obs.Panic != "" {
		return "C03/" + kind + "/panic", ctx + ": " + firstLine(t.Obs.Panic)
	}
	if single {
		age := t.Op.Ages[0]
		b := ""
		switch {
		case age < 0:
			b = "+future"
		case age == t.Cfg.Archs[len(t.Cfg.Archs)-1].Ret():
			b = "+age=maxretention"
		}
		if t.Exp.Reject && t.Obs.Err == "" {
			return "C03/single/accepted-out-of-range" + b, ctx + ": accepted although the statement rejects it"
		}
		if !t.Exp.Reject && t.Obs.Err != "" {
			return "C03/single/rejected-in-range" + b, ctx + ": rejected (" + t.Obs.Err + ") although 0 <= age < max retention"
		}
	} else if t.Obs.Err != "" {
		return "C03/batch/error" + hasTooOld(t), ctx + ": batch update returned an error instead of silently dropping: " + t.Obs.Err
	}
	if t.PostErr != "" {
		return "", ""
	}
	for _, m := range t.Mism {
		switch m.Kind {
		case "direct":
			clause := "misplaced"
			pre, ok := t.PreRings[m.Arch][m.Class]
			if m.Got == slotStr(pre, ok) {
				clause = "lost"
			}
			return fmt.Sprintf("C03/%s/%s/%s%s", kind, clause, named(t), hasTooOld(t)), fmt.Sprintf("%s: archive %d class %d holds %s, routing model says %s", ctx, m.Arch, m.Class, m.Got, m.Want)
		case "untouched":
			// only when the stray content is one of the supplied points
			a := t.Cfg.Archs[m.Arch]
			for i, age := range t.Op.Ages {
				ts := t.Pre.Now - age
				iv := ts - ts%int64(a.Step)
				g, ok := t.Post[m.Arch][m.Class]
				if ok && int64(g.T) == iv && math.Float64bits(g.V) == math.Float64bits(t.Op.Vals[i]) {
					return fmt.Sprintf("C03/%s/stored-where-it-does-not-belong/%s%s", kind, named(t), hasTooOld(t)), fmt.Sprintf("%s: point %d (age %d) shows up in archive %d class %d as %s; routing model leaves that slot alone (%s)", ctx, i, age, m.Arch, m.Class, m.Got, m.Want)
				}
			}
		}
	}
	return "", ""
}

func runC03(c *fw.Ctx) {
	layouts := append([]LayoutDef{}, CoreLayouts...)
	depth, maxCore := 3, 30
	if c.Thorough() {
		depth, maxCore = 3, 60
	}
	c.R.Bounds["layouts"] = fmt.Sprint(len(layouts))
	c.R.Bounds["history"] = fmt.Sprintf("generator depth %d (<=%d core states) + 1 routing operation", depth, maxCore)
	c.R.Bounds["batch"] = "all sequences of <=3 ages over {0,1} u {Ri-1,Ri,Ri+1} in every order, for best and every named archive; dense+one too-old point in 3 orders"
	c.R.Bounds["single"] = "every age in {-1,0,1} u {Ri-1,Ri,Ri+1} (all ages 0..Rmax+1 when Rmax<=24)"
	cfgs := aConfigs(c, layouts, []string{"mid", "high", "low"}, nil)
	ncore := len(cfgs)
	if c.Thorough() {
		for _, ld := range ThoroughExtraLayouts() {
			cl := Clocks(ld.Archs, false, []string{"mid"})
			for _, now := range []int64{cl[0], cl[len(cl)/2], cl[len(cl)-1]} {
				cfgs = append(cfgs, aConfig{ld, 4096, now})
			}
		}
	}
	for ci, ac := range cfgs {
		if ci >= ncore { // additional layouts of the thorough tier: quick settings
			depth, maxCore = 2, 10
		}
		if !c.Mine() {
			continue
		}
		if c.Expired() {
			return
		}
		cfg := ACfg{Tag: ac.ld.Tag, Spec: ac.ld.Spec, Archs: ac.ld.Archs, Method: 2, XFF: 1, Page: ac.page}
		e := &Explorer{C: c, Cfg: cfg, Now0: ac.now, Depth: depth, Gen: c03Gen(cfg.Archs), Full: c03Full(cfg.Archs), Judge: c03Judge, MaxCore: maxCore}
		e.Run()
		full := e.Full(AState{Now: ac.now})
		c.Sample(3, map[string]any{"layout": cfg.Spec, "now0": ac.now, "full_alphabet_size": len(full), "example_ops": []string{full[0].String(), full[len(full)/2].String(), full[len(full)-2].String()}})
	}
}

package props

import (
	"encoding/json"
	"flag"
	"fmt"
	"io"
	"math/big"
	"strings"
	"time"

	wt "github.com/hnakamur/whispertool"
	wcmd "github.com/hnakamur/whispertool/cmd"

	"verif/fw"
	"verif/wsp"
)

// C19 - text syntax round trips.  Engine D: parse(print(x)) = x over whole
// sub-ranges of the 32-bit domains (everything in the thorough tier), and every
// string over the parsers' alphabets up to a bounded length against an
// exact-arithmetic reference.

type c19Case struct {
	Kind string `json:"kind"` // dur-rt | ts-rt | dur-str | list-str | list-rt | method
	N    int64  `json:"n,omitempty"`
	S    string `json:"s,omitempty"`
}

func init() {
	fw.Register(&fw.Prop{
		ID: "C19", Level: "exploration", Run: runC19, Replay: replayC19,
		Rule:        "evaluations = parser calls; cases are distinct values (round trips) or distinct strings; a value is non-trivial unless it is 0, a string case is non-trivial when the reference grammar accepts it or it falls in one of the statement's must-reject classes.",
		Assumptions: []string{"units: s=1 m=60 h=3600 d=86400 w=604800 y=31536000", "strings with redundant leading zeros may be rejected or accepted with their exact value (statement silent)"},
	})
}

var unitMul = map[byte]int64{'s': 1, 'm': 60, 'h': 3600, 'd': 86400, 'w': 604800, 'y': 31536000}

// refDuration: grammar digits+ unit; returns (inGrammar, exact value, mustReject).
// mustReject covers the statement's listed classes: empty, missing/unknown/doubled unit, sign, > 31 bits.
func refDuration(s string) (inGrammar bool, val *big.Int, mustReject bool) {
	if s == "" {
		return false, nil, true
	}
	i := 0
	for i < len(s) && s[i] >= '0' && s[i] <= '9' {
		i++
	}
	digits, rest := s[:i], s[i:]
	if len(rest) != 1 || digits == "" {
		// missing unit, doubled unit, sign, garbage
		return false, nil, true
	}
	mul, ok := unitMul[rest[0]]
	if !ok {
		return false, nil, true
	}
	v, _ := new(big.Int).SetString(digits, 10)
	v.Mul(v, big.NewInt(mul))
	if v.Cmp(big.NewInt(1<<31-1)) > 0 {
		return true, v, true
	}
	return true, v, false
}

func c19DurStr(s string) (sig, desc string) {
	var d wt.Duration
	var err error
	if p, txt := fw.Guard(func() { d, err = wt.ParseDuration(s) }); p {
		return "C19/duration/panic", fmt.Sprintf("ParseDuration(%q) panicked: %s", s, firstLine(txt))
	}
	inG, val, must := refDuration(s)
	if err == nil {
		if must {
			cl := "not-in-grammar"
			if inG {
				cl = "exceeds-31-bits"
			}
			return "C19/duration/accepted-" + cl, fmt.Sprintf("ParseDuration(%q) = %d, the statement requires an error", s, d)
		}
		if !inG || val.Cmp(big.NewInt(int64(d))) != 0 {
			return "C19/duration/wrong-value", fmt.Sprintf("ParseDuration(%q) = %d, exact meaning is %v", s, d, val)
		}
	}
	return "", ""
}

// refList: "step:ret(,step:ret)*"; accepted value must be exact; must reject when a part is not in the duration grammar,
// a retention is not a positive multiple of its step, or the list violates the C07 predicate.
func c19ListStr(s string) (sig, desc string) {
	var l wt.ArchiveInfoList
	var err error
	if p, txt := fw.Guard(func() { l, err = wt.ParseArchiveInfoList(s) }); p {
		return "C19/list/panic", fmt.Sprintf("ParseArchiveInfoList(%q) panicked: %s", s, firstLine(txt))
	}
	if err != nil {
		return "", ""
	}
	parts := strings.Split(s, ",")
	if len(parts) != len(l) {
		return "C19/list/wrong-count", fmt.Sprintf("ParseArchiveInfoList(%q) returned %d archives", s, len(l))
	}
	var archs []wsp.Arch
	for i, part := range parts {
		ab := strings.Split(part, ":")
		if len(ab) != 2 {
			return "C19/list/accepted-malformed", fmt.Sprintf("ParseArchiveInfoList(%q) accepted a part without exactly one colon", s)
		}
		g1, st, m1 := refDuration(ab[0])
		g2, rt, m2 := refDuration(ab[1])
		if !g1 || !g2 || m1 || m2 {
			return "C19/list/accepted-bad-duration", fmt.Sprintf("ParseArchiveInfoList(%q) accepted part %q", s, part)
		}
		if st.Sign() <= 0 || rt.Sign() <= 0 || new(big.Int).Mod(rt, st).Sign() != 0 {
			return "C19/list/accepted-retention-not-multiple-of-step", fmt.Sprintf("ParseArchiveInfoList(%q) accepted %q", s, part)
		}
		n := new(big.Int).Div(rt, st)
		if int64(l[i].SecondsPerPoint()) != st.Int64() || int64(l[i].NumberOfPoints()) != n.Int64() {
			return "C19/list/wrong-value", fmt.Sprintf("ParseArchiveInfoList(%q)[%d] = step %d x %d points, exact meaning %v x %v", s, i, l[i].SecondsPerPoint(), l[i].NumberOfPoints(), st, n)
		}
		archs = append(archs, wsp.Arch{Step: uint32(st.Int64()), N: uint32(n.Int64())})
	}
	if ok, why := RefValidArchs(archs); !ok {
		return "C19/list/accepted-invalid-layout", fmt.Sprintf("ParseArchiveInfoList(%q) accepted a list that is not well-formed: %s", s, why)
	}
	return "", ""
}

// OverflowNumerals: for every unit, the numerals around the points where number x unit crosses 2^31, 2^32 and 2^33
// (a product that wraps past 2^32 comes back as a small positive number).
func OverflowNumerals() []string {
	var out []string
	for _, u := range []byte("smhdwy") {
		m := unitMul[u]
		for _, lim := range []int64{1<<31 - 1, 1 << 31, 1 << 32, 1<<32 + 44, 1 << 33, 3 << 32, 1 << 40} {
			for _, d := range []int64{-1, 0, 1, 2} {
				n := lim/m + d
				if n >= 0 {
					out = append(out, fmt.Sprintf("%d%c", n, u))
				}
			}
		}
	}
	return out
}

func allStrings(alpha string, maxLen int, shard, of int, f func(string)) int64 {
	var n int64
	buf := make([]byte, 0, maxLen)
	var rec func(int)
	rec = func(l int) {
		if l > 0 || true {
			n++
			if int(n)%of == shard {
				f(string(buf))
			}
		}
		if l == maxLen {
			return
		}
		for i := 0; i < len(alpha); i++ {
			buf = append(buf, alpha[i])
			rec(l + 1)
			buf = buf[:l]
		}
	}
	rec(0)
	return n
}

func c19DurRT(n int64) (string, string) {
	d := wt.Duration(n)
	s := d.String()
	got, err := wt.ParseDuration(s)
	if err != nil || got != d {
		return "C19/duration/roundtrip", fmt.Sprintf("Duration(%d).String() = %q parses to %d, %v", n, s, got, err)
	}
	return "", ""
}

// c19Zones: the round trip must not depend on the process's local time zone.
func c19Zones(c *fw.Ctx) {
	old := time.Local
	defer func() { time.Local = old }()
	for _, z := range []int{9 * 3600, -(5*3600 + 1800), 14 * 3600, -12 * 3600} {
		time.Local = time.FixedZone("verif", z)
		for _, n := range []int64{0, 1, 86399, 86400, 1592653883, 1700000000, 1<<31 - 1, 1 << 31, 1<<32 - 1} {
			for d := int64(-2); d <= 2; d++ {
				m := n + d
				if m < 0 || m >= 1<<32 {
					continue
				}
				c.Count("evaluations", 1)
				if sig, desc := c19TsRT(m); sig != "" {
					c.Violate(sig+"/non-utc-local-zone", fmt.Sprintf("with the local time zone at UTC%+ds: %s", z, desc), 10, c19Case{Kind: "ts-rt-zone", N: m, S: fmt.Sprint(z)}, "")
				}
				if want := FormatUTC(m); wt.Timestamp(m).String() != want {
					c.Violate("C19/timestamp/not-printed-in-utc", fmt.Sprintf("with the local time zone at UTC%+ds Timestamp(%d) prints %q, UTC is %q", z, m, wt.Timestamp(m).String(), want), 10, c19Case{Kind: "ts-rt-zone", N: m, S: fmt.Sprint(z)}, "")
				}
			}
		}
	}
}

func c19TsRT(n int64) (string, string) {
	t := wt.Timestamp(n)
	s := t.String()
	got, err := wt.ParseTimestamp(s)
	if err != nil || got != t {
		return "C19/timestamp/roundtrip", fmt.Sprintf("Timestamp(%d).String() = %q parses to %d, %v", n, s, got, err)
	}
	return "", ""
}

func c19ListRT(archs []wsp.Arch) (string, string) {
	h, err := wt.NewHeader(wt.Sum, 0, archList(archs))
	if err != nil {
		return "", "" // C07 decides acceptance
	}
	s := h.ArchiveInfoList().String()
	l, err := wt.ParseArchiveInfoList(s)
	if err != nil || !l.Equal(h.ArchiveInfoList()) {
		return "C19/list/roundtrip", fmt.Sprintf("layout %s prints as %q which parses to %v, %v", wsp.LayoutString(archs), s, l, err)
	}
	return "", ""
}

func c19Methods(c *fw.Ctx) {
	for m := 0; m <= 9; m++ {
		am := wt.AggregationMethod(m)
		s := am.String()
		got, err := wt.AggregationMethodString(s)
		named := m >= 1 && m <= 8
		c.Count("evaluations", 1)
		if named {
			c.Count("distinct_nontrivial", 1)
			if err != nil || got != am {
				c.Violate("C19/method/roundtrip", fmt.Sprintf("AggregationMethod(%d).String() = %q parses to %v, %v", m, s, got, err), m, c19Case{Kind: "method", N: int64(m)}, "")
			}
		}
		// cmd flag pair: Set(String()) through a real command's flag set
		if m >= 1 && m <= 6 {
			fs := flag.NewFlagSet("x", flag.ContinueOnError)
			fs.SetOutput(io.Discard)
			g := &wcmd.GenerateCommand{}
			g.Parse(fs, []string{"-agg-method", s, "-retentions", "1s:2s", "-dest", "x"})
			c.Count("evaluations", 1)
			if g.AggregationMethod != am || fs.Lookup("agg-method").Value.String() != s {
				c.Violate("C19/method/flag", fmt.Sprintf("flag -agg-method %q sets %v and prints %q", s, g.AggregationMethod, fs.Lookup("agg-method").Value.String()), m, c19Case{Kind: "method", N: int64(m)}, "")
			}
		}
	}
}

func runC19(c *fw.Ctx) {
	durRT := func(n int64) {
		c.Count("evaluations", 1)
		if n != 0 {
			c.Count("distinct_nontrivial", 1)
		}
		if sig, desc := c19DurRT(n); sig != "" {
			c.Violate(sig, desc, int(n>>8), c19Case{Kind: "dur-rt", N: n}, "")
		}
	}
	tsRT := func(n int64) {
		c.Count("evaluations", 1)
		if n != 0 {
			c.Count("distinct_nontrivial", 1)
		}
		if sig, desc := c19TsRT(n); sig != "" {
			c.Violate(sig, desc, int(n>>8), c19Case{Kind: "ts-rt", N: n}, "")
		}
	}
	sh, of := int64(c.Shard), int64(c.Of)
	if c.Thorough() {
		c.R.Bounds["durations"] = "all 2^31 non-negative durations"
		c.R.Bounds["timestamps"] = "all 2^32 timestamps"
		for n := sh; n < 1<<31; n += of {
			if n&0xffffff == sh && c.Expired() {
				return
			}
			durRT(n)
		}
		for n := sh; n < 1<<32; n += of {
			if n&0xffffff == sh && c.Expired() {
				return
			}
			tsRT(n)
		}
	} else {
		c.R.Bounds["durations"] = "[0,2^22) + every multiple of every unit below 2^31 (step by unit for units >= 1h; minutes: every 64th) + +-4096 around every power of two, unit overflow point and MaxInt32"
		c.R.Bounds["timestamps"] = "[0,2^20) + every day boundary +-2 s + +-4096 around powers of two + the last 2^20"
		seenD := map[int64]bool{}
		d := func(n int64) {
			if n >= 0 && n < 1<<31 && !seenD[n] && n%of == sh {
				seenD[n] = true
				durRT(n)
			}
		}
		for n := int64(0); n < 1<<22; n++ {
			d(n)
		}
		for _, u := range []int64{3600, 86400, 604800, 31536000} {
			for n := int64(0); n < 1<<31; n += u {
				d(n)
			}
		}
		for n := int64(0); n < 1<<31; n += 60 * 64 {
			d(n)
		}
		centers := []int64{1<<31 - 1}
		for b := uint(8); b <= 31; b++ {
			centers = append(centers, 1<<b)
		}
		for _, u := range []int64{60, 3600, 86400, 604800, 31536000} {
			centers = append(centers, ((1<<31-1)/u)*u)
		}
		for _, ce := range centers {
			for k := int64(-4096); k <= 4096; k++ {
				d(ce + k)
			}
		}
		seenT := map[int64]bool{}
		t := func(n int64) {
			if n >= 0 && n < 1<<32 && !seenT[n] && n%of == sh {
				seenT[n] = true
				tsRT(n)
			}
		}
		for n := int64(0); n < 1<<20; n++ {
			t(n)
			t(1<<32 - 1 - n)
		}
		for n := int64(0); n < 1<<32; n += 86400 {
			for k := int64(-2); k <= 2; k++ {
				t(n + k)
			}
		}
		for b := uint(8); b <= 32; b++ {
			for k := int64(-4096); k <= 4096; k++ {
				t(int64(1)<<b + k)
			}
		}
	}
	// every string over the parsers' alphabets up to a bounded length
	durLen, listLen := 5, 8
	if c.Thorough() {
		durLen, listLen = 6, 9
	}
	c.R.Bounds["duration_strings"] = fmt.Sprintf("all strings of length <=%d over \"0129smhdwyx-+ \" + boundary numerals", durLen)
	c.R.Bounds["list_strings"] = fmt.Sprintf("all strings of length <=%d over \"0126sm:,\" + boundary lists", listLen)
	durStr := func(s string) {
		c.Count("evaluations", 1)
		inG, _, must := refDuration(s)
		if inG || must {
			c.Count("distinct_nontrivial", 1)
		}
		if inG && !must {
			c.Count("duration_strings_in_grammar", 1)
		}
		if sig, desc := c19DurStr(s); sig != "" {
			c.Violate(sig, desc, len(s), c19Case{Kind: "dur-str", S: s}, "")
		}
	}
	allStrings("0129smhdwyx-+ ", durLen, c.Shard, c.Of, durStr)
	if c.Shard == 0 {
		for _, num := range []string{"2147483647", "2147483648", "4294967295", "4294967296", "4294967297", "35791394", "35791395", "596523", "596524", "24855", "24856", "3550", "3551", "68", "69", "99999999999", "18446744073709551616", "9223372036854775808"} {
			for _, u := range []string{"s", "m", "h", "d", "w", "y", "", "ss", "x"} {
				durStr(num + u)
			}
		}
		for _, s := range OverflowNumerals() {
			durStr(s)
		}
		for _, s := range []string{"-1s", "+1s", " 1s", "1s ", "1 s", "1S", "1.5s", "1e3s", "0s", "00s", "01s", "s", "1sm", "1m1s", "１s"} {
			durStr(s)
		}
	}
	listStr := func(s string) {
		c.Count("evaluations", 1)
		if strings.Contains(s, ":") {
			c.Count("distinct_nontrivial", 1)
		}
		if sig, desc := c19ListStr(s); sig != "" {
			c.Violate(sig, desc, len(s), c19Case{Kind: "list-str", S: s}, "")
		}
	}
	allStrings("0126sm:,", listLen, c.Shard, c.Of, listStr)
	if c.Shard == 0 {
		for _, d := range OverflowNumerals() {
			listStr("1s:" + d)
			listStr(d + ":" + d)
			listStr("1s:60s," + d + ":" + d)
		}
		for _, s := range []string{"1s:20y", "1s:68y", "1s:69y", "1s:2147483647s", "1s:2147483648s", "2s:3s", "2s:4s,3s:9s", "1s:2s,2s:2s", "1s:2s,1s:4s", "1s:1s,2s:4s", "1s:2s,2s:4s", "1s:2s,", ",1s:2s", "1s:2s,,2s:6s", "1s", "1s:", ":2s", "1s:2s:3s", "10s:2h,1m:1d", "1m:1d,10s:2h", "60s:1d,1m:2d", "1s:357913939s", "1s:357913940s"} {
			listStr(s)
		}
	}
	// valid layouts round trip
	if c.Shard == 0 {
		layouts := append([]LayoutDef{}, CoreLayouts...)
		layouts = append(layouts, LP, L("Lbig", "60s:86400s,300s:2592000s,3600s:157680000s"), L("Ly", "86400s:31536000s,604800s:630720000s"))
		layouts = append(layouts, AllSmallLayouts()...)
		for _, ld := range layouts {
			c.Count("evaluations", 1)
			c.Count("distinct_nontrivial", 1)
			if sig, desc := c19ListRT(ld.Archs); sig != "" {
				c.Violate(sig, desc, len(ld.Spec), c19Case{Kind: "list-rt", S: ld.Spec}, "")
			}
		}
		c19Methods(c)
		c19Zones(c)
		// timestamp flag pair through a real command
		for _, n := range []int64{0, 1, 1700000000, 1<<31 - 1, 1 << 31, 1<<32 - 1} {
			fs := flag.NewFlagSet("x", flag.ContinueOnError)
			fs.SetOutput(io.Discard)
			v := &wcmd.ViewCommand{}
			s := wt.Timestamp(n).String()
			v.Parse(fs, []string{"-src-base", "a", "-src", "b", "-until", s})
			c.Count("evaluations", 1)
			if int64(v.Until) != n || fs.Lookup("until").Value.String() != s {
				c.Violate("C19/timestamp/flag", fmt.Sprintf("flag -until %q sets %d and prints %q", s, v.Until, fs.Lookup("until").Value.String()), 1, c19Case{Kind: "ts-rt", N: n}, "")
			}
		}
		c.Sample(5, map[string]any{"duration_roundtrip_example": fmt.Sprintf("%d -> %q", 7200, wt.Duration(7200).String()), "timestamp_example": wt.Timestamp(1700000000).String(), "string_examples": []string{"2147483647s", "35791395m", "1s:2s,2s:6s"}, "now": time.Now().Unix()})
	}
}

func replayC19(c *fw.Ctx, raw json.RawMessage) (bool, string) {
	var k c19Case
	json.Unmarshal(raw, &k)
	var sig, desc string
	switch k.Kind {
	case "dur-rt":
		sig, desc = c19DurRT(k.N)
	case "ts-rt":
		sig, desc = c19TsRT(k.N)
	case "dur-str":
		sig, desc = c19DurStr(k.S)
	case "list-str":
		sig, desc = c19ListStr(k.S)
	case "ts-rt-zone":
		var z int
		fmt.Sscan(k.S, &z)
		old := time.Local
		time.Local = time.FixedZone("verif", z)
		sig, desc = c19TsRT(k.N)
		if sig == "" && wt.Timestamp(k.N).String() != FormatUTC(k.N) {
			sig, desc = "C19/timestamp/not-printed-in-utc", wt.Timestamp(k.N).String()
		}
		time.Local = old
	case "list-rt":
		sig, desc = c19ListRT(wsp.ParseLayout(k.S))
	default:
		return false, "not replayable: " + k.Kind
	}
	return sig != "", desc
}

package props

import (
	"bytes"
	"encoding/json"
	"errors"
	"fmt"
	"math"

	wt "github.com/hnakamur/whispertool"

	"verif/fw"
	"verif/wsp"
)

// C14 - binary codec round trip and framing.  Engine D: every object of the
// listed finite grids is encoded; the full encoding (alone and followed by
// trailers) must decode to an equal object consuming exactly its bytes, and
// every proper prefix must ask for a larger buffer naming a size in
// (len(prefix), len(full)], so that the retry protocol terminates.

type codec struct {
	name string
	enc  []byte
	// dec decodes into a fresh object and returns the rest, the error and a canonical re-encoding + description of the decoded object
	dec func(src []byte) (rest []byte, err error, reenc []byte, extra string)
	// extraWant is compared with dec's extra on the full encoding (fields not visible in the bytes)
	extraWant string
}

type c14Case struct {
	Codec   string `json:"codec"`
	Enc     string `json:"encoding_hex"`
	Cut     int    `json:"prefix_len"`
	Trailer string `json:"trailer_hex"`
	Want    string `json:"decoded_fields_want,omitempty"`
	Dirty   bool   `json:"reused_receiver,omitempty"`
}

func init() {
	fw.Register(&fw.Prop{
		ID: "C14", Level: "exploration", Run: runC14, Replay: replayC14,
		Rule:        "evaluations = decode calls (full encodings with each trailer + every proper prefix + retry-protocol steps) over every object of the grids; a case is distinct by (codec, encoding bytes); non-trivial = the encoding is longer than the codec's fixed minimum or carries a non-zero payload (headers with >=1 archive, series/lists with >=1 element, non-zero scalars).",
		Assumptions: []string{"object equality is judged by re-encoding to identical bytes plus the exported accessors", "time series wider than 2^31-1 s are not encodable objects (their width is not a Duration); they are hostile input for C15"},
	})
}

// c14Dirty: when set, every decoder first decodes a valid OTHER object into the receiver it is about to use
// (a reused variable): the second decode must fully replace it.
var c14Dirty bool

func seedHeader() []byte {
	h, _ := wt.NewHeader(wt.Max, 0.25, archList(wsp.ParseLayout("1s:4s,2s:8s,4s:32s")))
	return h.AppendTo(nil)
}

func decHeader(src []byte) ([]byte, error, []byte, string) {
	h := &wt.Header{}
	if c14Dirty {
		h.TakeFrom(seedHeader())
		h.AppendTo(nil) // ... and the receiver has been encoded before: nothing of that encoding may survive the next decode
	}
	rest, err := h.TakeFrom(src)
	if err != nil {
		return rest, err, nil, ""
	}
	extra := fmt.Sprintf("m=%d x=%08x r=%d list=%s size=%d", h.AggregationMethod(), math.Float32bits(h.XFilesFactor()), h.MaxRetention(), h.ArchiveInfoList(), h.ExpectedFileSize())
	return rest, nil, c14Enc(h.AppendTo), extra
}

func decSeries(src []byte) ([]byte, error, []byte, string) {
	ts := &wt.TimeSeries{}
	if c14Dirty {
		ts.TakeFrom(wt.NewTimeSeries(100, 160, 10, []wt.Value{1, 2, 3, 4, 5, 6}).AppendTo(nil))
		ts.AppendTo(nil)
	}
	rest, err := ts.TakeFrom(src)
	if err != nil {
		return rest, err, nil, ""
	}
	return rest, nil, c14Enc(ts.AppendTo), fmt.Sprintf("from=%d until=%d step=%d n=%d", ts.FromTime(), ts.UntilTime(), ts.Step(), len(ts.Values()))
}

func decPoints(src []byte) ([]byte, error, []byte, string) {
	var pp wt.Points
	if c14Dirty {
		seed := wt.Points{{Time: 7, Value: 7}, {Time: 8, Value: 8}, {Time: 9, Value: 9}, {Time: 10, Value: 10}, {Time: 11, Value: 11}}
		pp.TakeFrom(seed.AppendTo(nil))
		pp.AppendTo(nil)
	}
	rest, err := pp.TakeFrom(src)
	if err != nil {
		return rest, err, nil, ""
	}
	return rest, nil, c14Enc(pp.AppendTo), fmt.Sprintf("n=%d", len(pp))
}

func decPoint(src []byte) ([]byte, error, []byte, string) {
	var p wt.Point
	if c14Dirty {
		p = wt.Point{Time: 12345, Value: -6.5}
	}
	rest, err := p.TakeFrom(src)
	if err != nil {
		return rest, err, nil, ""
	}
	return rest, nil, c14Enc(p.AppendTo), fmt.Sprintf("t=%d v=%016x", p.Time, math.Float64bits(float64(p.Value)))
}

func decValue(src []byte) ([]byte, error, []byte, string) {
	var v wt.Value
	if c14Dirty {
		v = -6.5
	}
	rest, err := v.TakeFrom(src)
	if err != nil {
		return rest, err, nil, ""
	}
	return rest, nil, c14Enc(v.AppendTo), fmt.Sprintf("%016x", math.Float64bits(float64(v)))
}

func decTimestamp(src []byte) ([]byte, error, []byte, string) {
	var t wt.Timestamp
	if c14Dirty {
		t = 0xdeadbeef
	}
	rest, err := t.TakeFrom(src)
	if err != nil {
		return rest, err, nil, ""
	}
	return rest, nil, c14Enc(t.AppendTo), fmt.Sprint(uint32(t))
}

func decDuration(src []byte) ([]byte, error, []byte, string) {
	var d wt.Duration
	if c14Dirty {
		d = -12345
	}
	rest, err := d.TakeFrom(src)
	if err != nil {
		return rest, err, nil, ""
	}
	return rest, nil, c14Enc(d.AppendTo), fmt.Sprint(int32(d))
}

func decArchiveInfo(src []byte) ([]byte, error, []byte, string) {
	var a wt.ArchiveInfo
	if c14Dirty {
		a.TakeFrom([]byte{0, 0, 0, 99, 0, 0, 0, 77, 0, 0, 0, 55})
	}
	rest, err := a.TakeFrom(src)
	if err != nil {
		return rest, err, nil, ""
	}
	return rest, nil, c14Enc(a.AppendTo), fmt.Sprintf("s=%d n=%d", a.SecondsPerPoint(), a.NumberOfPoints())
}

// c14Light: the whole-domain sweep of the thorough tier does the non-empty-buffer probe on every 16th scalar only.
var c14Light bool

// c14ProbeAppend: when set, c14Enc also encodes onto non-empty buffers (an earlier message of another kind, with and
// without spare capacity) and records in c14AppendIssue when that does not give "what was there + the encoding".
var c14ProbeAppend bool
var c14AppendIssue string

func c14Enc(appendTo func([]byte) []byte) []byte {
	base := appendTo(nil)
	if !c14ProbeAppend {
		return base
	}
	first := []byte("\x00\x00\x00\x02\x7f\xf8\x00\x00\x00\x00\x00\x01earlier message, longer than any fixed header part")
	for _, spare := range []int{0, 7, 4096} {
		dst := make([]byte, len(first), len(first)+spare)
		copy(dst, first)
		out := appendTo(dst)
		if len(out) < len(first) || !bytes.Equal(out[:len(first)], first) {
			c14AppendIssue = fmt.Sprintf("appending to a buffer holding an earlier %d-byte message (spare capacity %d) damaged that message", len(first), spare)
			return base
		}
		if !bytes.Equal(out[len(first):], base) {
			c14AppendIssue = fmt.Sprintf("appended to a buffer holding an earlier %d-byte message (spare capacity %d) the encoding is %x, alone it is %x", len(first), spare, out[len(first):], base)
			return base
		}
	}
	return base
}

var decoders = map[string]func([]byte) ([]byte, error, []byte, string){
	"Header": decHeader, "TimeSeries": decSeries, "Points": decPoints, "Point": decPoint, "Value": decValue,
	"Timestamp": decTimestamp, "Duration": decDuration, "ArchiveInfo": decArchiveInfo,
}

// AwkwardDoubles: values that stress float formatting and NaN handling.
func AwkwardDoubles() []float64 {
	return []float64{0, math.Copysign(0, -1), math.Inf(1), math.Inf(-1), math.NaN(),
		math.Float64frombits(0x7ff8000000000001), math.Float64frombits(0xfff0000000000001), math.Float64frombits(0x7ff0000000000001),
		math.SmallestNonzeroFloat64, 0.1, 1.0 / 3.0, 9007199254740993, math.Nextafter(1, 2), math.Nextafter(1, 0),
		1e22, math.Nextafter(1e22, math.Inf(1)), math.MaxFloat64, -1.5, 1, -2, 4}
}

// StructuredDoubles: sign x every exponent x 12 mantissa patterns.
func StructuredDoubles(expStep int) []float64 {
	mant := []uint64{0, 1, 2, 0x8000000000000, 0xfffffffffffff, 0x5555555555555, 0xaaaaaaaaaaaaa, 0x0000000ffffff, 0xfffffff000000, 0x10000000, 0x7ffffffffffff, 0x8000000000001}
	var out []float64
	for sign := uint64(0); sign < 2; sign++ {
		for e := 0; e < 2048; e += expStep {
			for _, m := range mant {
				out = append(out, math.Float64frombits(sign<<63|uint64(e)<<52|m))
			}
		}
	}
	return out
}

func timeGrid() []uint32 {
	return []uint32{0, 1, 59, 60, 1700000000, 1700000001, 1<<31 - 1, 1 << 31, 1<<31 + 1, 1<<32 - 2, 1<<32 - 1, 86400}
}

func c14Objects(c *fw.Ctx, emit func(codec)) {
	// headers
	layouts := append([]LayoutDef{}, CoreLayouts...)
	layouts = append(layouts, LP)
	layouts = append(layouts, L("Lbig", "60s:86400s,300s:2592000s,3600s:157680000s"))
	// valid layouts whose later archives start beyond 2^31 bytes / end just below 2^32 (offsets use all 32 bits)
	layouts = append(layouts,
		LayoutDef{Tag: "Lhuge1", Spec: "1s:178956968s,2s:180000000s", Archs: []wsp.Arch{{Step: 1, N: 178956968}, {Step: 2, N: 90000000}}},
		LayoutDef{Tag: "Lhuge2", Spec: "1s:178956967s,2s:357913934s", Archs: []wsp.Arch{{Step: 1, N: 178956967}, {Step: 2, N: 178956967}}},
		LayoutDef{Tag: "Lhuge3", Spec: "1s:2s,2s:300000000s,4s:800000000s", Archs: []wsp.Arch{{Step: 1, N: 2}, {Step: 2, N: 150000000}, {Step: 4, N: 200000000}}})
	if c.Thorough() {
		layouts = append(layouts, AllSmallLayouts()...)
	}
	xffs := []float32{0, 0.5, 1, float32(1.0 / 3.0), math.SmallestNonzeroFloat32, math.Nextafter32(1, 0), float32(math.Copysign(0, -1))}
	for _, ld := range layouts {
		for m := uint32(1); m <= 6; m++ {
			for _, x := range xffs {
				h, err := wt.NewHeader(wt.AggregationMethod(m), x, archList(ld.Archs))
				if err != nil {
					c.Inconclusive("NewHeader rejected a valid layout (C07 decides): " + ld.Spec)
					continue
				}
				l := wsp.Layout{Archs: ld.Archs, Method: m, XFF: x}
				want := fmt.Sprintf("m=%d x=%08x r=%d list=%s size=%d", m, math.Float32bits(x), l.MaxRet(), h.ArchiveInfoList(), l.FileSize())
				emit(codec{name: "Header", enc: h.AppendTo(nil), extraWant: want})
			}
		}
	}
	// archive infos
	for _, s := range []uint32{1, 2, 60, 1<<31 - 1} {
		for _, n := range []uint32{1, 2, 700, 1<<32 - 1} {
			a := wt.NewArchiveInfo(wt.Duration(s), n)
			emit(codec{name: "ArchiveInfo", enc: a.AppendTo(nil)})
		}
	}
	vals := AwkwardDoubles()
	// time series
	for _, from := range timeGrid() {
		for _, step := range []int64{1, 2, 60, 1<<31 - 1} {
			for n := 0; n <= 6; n++ {
				for _, rem := range []int64{0, step - 1} {
					until := int64(from) + int64(n)*step + rem
					if until > math.MaxUint32 || until-int64(from) > math.MaxInt32 {
						continue
					}
					vs := make([]wt.Value, n)
					for i := range vs {
						vs[i] = wt.Value(vals[(i+int(from)+n)%len(vals)])
					}
					ts := wt.NewTimeSeries(wt.Timestamp(from), wt.Timestamp(until), wt.Duration(step), vs)
					emit(codec{name: "TimeSeries", enc: ts.AppendTo(nil), extraWant: fmt.Sprintf("from=%d until=%d step=%d n=%d", from, until, step, n)})
				}
			}
		}
	}
	// point lists
	tg := timeGrid()
	for n := 0; n <= 4; n++ {
		for k := 0; k < len(tg); k++ {
			pp := make(wt.Points, n)
			for i := range pp {
				pp[i] = wt.Point{Time: wt.Timestamp(tg[(k+i)%len(tg)]), Value: wt.Value(vals[(k*3+i)%len(vals)])}
			}
			emit(codec{name: "Points", enc: pp.AppendTo(nil), extraWant: fmt.Sprintf("n=%d", n)})
		}
	}
	// points and values
	expStep := 2
	if c.Thorough() {
		expStep = 1
	}
	doubles := append(StructuredDoubles(expStep), vals...)
	for i, v := range doubles {
		val := wt.Value(v)
		emit(codec{name: "Value", enc: val.AppendTo(nil), extraWant: fmt.Sprintf("%016x", math.Float64bits(v))})
		p := wt.Point{Time: wt.Timestamp(tg[i%len(tg)]), Value: val}
		emit(codec{name: "Point", enc: p.AppendTo(nil), extraWant: fmt.Sprintf("t=%d v=%016x", tg[i%len(tg)], math.Float64bits(v))})
	}
	// timestamps and durations: boundaries (quick) or the whole 32-bit domain (thorough)
	scalar := func(u uint32) {
		t := wt.Timestamp(u)
		emit(codec{name: "Timestamp", enc: t.AppendTo(nil), extraWant: fmt.Sprint(u)})
		d := wt.Duration(int32(u))
		emit(codec{name: "Duration", enc: d.AppendTo(nil), extraWant: fmt.Sprint(int32(u))})
	}
	if c.Thorough() {
		for u := uint64(0); u < 1<<32; u += 1 {
			if u%uint64(c.Of) == uint64(c.Shard) {
				scalar(uint32(u))
			}
			if u&0xffff == 0 && c.Expired() {
				break
			}
		}
	} else {
		for _, center := range []uint64{0, 1 << 31, 1 << 32} {
			for d := int64(-1 << 16); d <= 1<<16; d++ {
				u := int64(center) + d
				if u >= 0 && u < 1<<32 {
					scalar(uint32(u))
				}
			}
		}
	}
}

var c14Trailers = [][]byte{nil, {0x00}, {0xff}, {0x00, 0x00, 0x00, 0x01, 0x7f}}

func c14Eval(k codec, cut int, trailer []byte) (sig, desc string, evals int64) {
	dec := decoders[k.name]
	full := k.enc
	if cut < 0 { // full encoding + trailer (also: followed by a second full message)
		src := append(append([]byte{}, full...), trailer...)
		var rest, reenc []byte
		var err error
		var extra string
		c14ProbeAppend, c14AppendIssue = len(trailer) == 0 && !c14Light, ""
		p, txt := fw.Guard(func() { rest, err, reenc, extra = dec(src) })
		c14ProbeAppend = false
		if p {
			return "C14/" + k.name + "/panic", "decoding a valid encoding panicked: " + firstLine(txt), 1
		}
		evals = 1
		if c14AppendIssue != "" {
			return "C14/" + k.name + "/append-to-nonempty-buffer", fmt.Sprintf("%s %x: %s", k.name, full, c14AppendIssue), evals
		}
		if err != nil {
			return "C14/" + k.name + "/valid-encoding-rejected", fmt.Sprintf("%s: decoding its own encoding %x (+%d trailing bytes) failed: %v", k.name, full, len(trailer), err), evals
		}
		if !bytes.Equal(reenc, full) {
			return "C14/" + k.name + "/roundtrip", fmt.Sprintf("%s: decode(encode(x)) re-encodes to %x, want %x", k.name, reenc, full), evals
		}
		if k.extraWant != "" && extra != k.extraWant {
			return "C14/" + k.name + "/roundtrip-fields", fmt.Sprintf("%s: decoded object %q, want %q", k.name, extra, k.extraWant), evals
		}
		if !bytes.Equal(rest, trailer) {
			return "C14/" + k.name + "/remainder", fmt.Sprintf("%s: remainder after decoding is %x, want the %d trailing bytes %x", k.name, rest, len(trailer), trailer), evals
		}
		return "", "", evals
	}
	// proper prefix, then the retry protocol to its end
	s := cut
	for steps := 0; ; steps++ {
		var err error
		if p, txt := fw.Guard(func() { _, err, _, _ = dec(full[:s]) }); p {
			return "C14/" + k.name + "/panic-on-prefix", fmt.Sprintf("%s: decoding the %d-byte prefix of %x panicked: %s", k.name, s, full, firstLine(txt)), evals + 1
		}
		evals++
		if s == len(full) {
			if err != nil {
				return "C14/" + k.name + "/retry-does-not-succeed", fmt.Sprintf("%s: retry reached the full length %d but decode failed: %v", k.name, s, err), evals
			}
			return "", "", evals
		}
		if err == nil {
			return "C14/" + k.name + "/prefix-accepted", fmt.Sprintf("%s: the %d-byte proper prefix of the %d-byte encoding %x decoded successfully", k.name, s, len(full), full), evals
		}
		var w *wt.WantLargerBufferError
		if !errors.As(err, &w) {
			return "C14/" + k.name + "/prefix-misreported", fmt.Sprintf("%s: the %d-byte prefix of %x gives %q, not a want-larger-buffer error", k.name, s, full, err), evals
		}
		if w.WantedBufSize <= s || w.WantedBufSize > len(full) {
			return "C14/" + k.name + "/wanted-size", fmt.Sprintf("%s: the %d-byte prefix of the %d-byte encoding %x asks for %d bytes (must be in (%d, %d])", k.name, s, len(full), full, w.WantedBufSize, s, len(full)), evals
		}
		s = w.WantedBufSize
		if steps > len(full)+2 {
			return "C14/" + k.name + "/retry-does-not-terminate", "retry loop exceeded the message length", evals
		}
	}
}

func runC14(c *fw.Ctx) {
	seen := map[string]bool{}
	minLen := map[string]int{"Header": 16, "TimeSeries": 12, "Points": 8}
	idx := 0
	c14Objects(c, func(k codec) {
		idx++
		if c.Of > 1 && k.name != "Timestamp" && k.name != "Duration" && idx%c.Of != c.Shard {
			return
		}
		if !c.Thorough() && (k.name == "Timestamp" || k.name == "Duration") && idx%c.Of != c.Shard {
			return
		}
		// (the scalars of the thorough whole-domain sweep are distinct by construction: no bookkeeping, whose
		// millions of map entries would be rescanned by every collection)
		if !(c.Thorough() && (k.name == "Timestamp" || k.name == "Duration")) {
			key := k.name + string(k.enc)
			if seen[key] {
				return
			}
			if len(seen) < 3000000 {
				seen[key] = true
			}
		}
		nontrivial := len(k.enc) > minLen[k.name]
		if !nontrivial {
			for _, b := range k.enc {
				nontrivial = nontrivial || b != 0
			}
		}
		if nontrivial {
			c.Count("distinct_nontrivial", 1)
		}
		c.Count("objects", 1)
		c.Outcome(k.name)
		trailers := c14Trailers
		if c.Thorough() && (k.name == "Timestamp" || k.name == "Duration") && k.enc[3] != 0 {
			trailers = c14Trailers[:1] // whole-domain sweep: the trailer variants on every 256th value only
		}
		c14Light = c.Thorough() && (k.name == "Timestamp" || k.name == "Duration") && k.enc[3]&0x0f != 0
		for _, tr := range trailers {
			sig, desc, n := c14Eval(k, -1, tr)
			c.Count("evaluations", n)
			if sig != "" {
				c.Violate(sig, desc, len(k.enc)+len(tr), c14Case{Codec: k.name, Enc: hexs(k.enc), Cut: -1, Trailer: hexs(tr), Want: k.extraWant}, "")
			}
		}
		// the same decode into a receiver that already holds another object
		if k.name != "Timestamp" && k.name != "Duration" || len(k.enc) > 0 && k.enc[len(k.enc)-1]&0x3f == 0 {
			c14Dirty = true
			sig, desc, n := c14Eval(k, -1, nil)
			c14Dirty = false
			c.Count("evaluations", n)
			c.Count("dirty_receiver_decodes", n)
			if sig != "" {
				c.Violate(sig+"/reused-receiver", "decoding into a variable that already holds another object: "+desc, len(k.enc)+1, c14Case{Codec: k.name, Enc: hexs(k.enc), Cut: -1, Want: k.extraWant, Dirty: true}, "")
			}
		}
		// followed by a second full message
		sig, desc, n := c14Eval(k, -1, k.enc)
		c.Count("evaluations", n)
		if sig != "" {
			c.Violate(sig, desc, 2*len(k.enc), c14Case{Codec: k.name, Enc: hexs(k.enc), Cut: -1, Trailer: hexs(k.enc)}, "")
		}
		for cut := 0; cut < len(k.enc); cut++ {
			if c.Thorough() && (k.name == "Timestamp" || k.name == "Duration") && k.enc[3]&0x0f != 0 {
				break // whole-domain sweep: the truncation protocol on every 16th value only
			}
			sig, desc, n := c14Eval(k, cut, nil)
			c.Count("evaluations", n)
			c.Count("prefixes", 1)
			if sig != "" {
				c.Violate(sig, desc, len(k.enc)+cut, c14Case{Codec: k.name, Enc: hexs(k.enc), Cut: cut}, "")
			}
		}
		if k.name == "TimeSeries" && len(k.enc) > 20 {
			c.Sample(4, map[string]any{"codec": k.name, "encoding_hex": hexs(k.enc), "decoded": k.extraWant, "prefixes_tried": len(k.enc)})
		}
	})
	c.R.Bounds["grids"] = "headers: layouts x 6 methods x 7 xff bit patterns; series: 12 from x 4 steps x n<=6 x 2 remainders; point lists n<=4; doubles: sign x exponents (every 2nd quick, all 2048 thorough) x 12 mantissas + awkward; timestamps/durations: +-65536 around 0, 2^31, 2^32 (quick) or all 2^32 (thorough; trailer variants on every 256th and the truncation protocol on every 16th value)"
}

func replayC14(c *fw.Ctx, raw json.RawMessage) (bool, string) {
	var k c14Case
	if err := json.Unmarshal(raw, &k); err != nil {
		return false, err.Error()
	}
	c14Dirty = k.Dirty
	sig, desc, _ := c14Eval(codec{name: k.Codec, enc: unhex(k.Enc), extraWant: k.Want}, k.Cut, unhex(k.Trailer))
	c14Dirty = false
	return sig != "", desc
}

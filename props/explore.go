package props

import (
	"bytes"
	"encoding/json"
	"fmt"
	"math"

	"verif/fw"
	"verif/wsp"
)

// Trans is one explored transition with everything a judge needs.
type Trans struct {
	Cfg      ACfg
	Pre      AState
	PreRings []wsp.Ring
	Op       AOp
	Obs      AObs
	Exp      AExp
	PostFile *wsp.File  // nil when the post bytes do not parse
	PostErr  string     // parse / placement error of the post bytes
	Post     []wsp.Ring // nil when unparsable
	Mism     []Mismatch
	Depth    int
}

// TransCase is the replayable form of a transition.
type TransCase struct {
	Cfg   ACfg   `json:"cfg"`
	Bytes string `json:"pre_bytes_hex"`
	Now   int64  `json:"now"`
	Op    AOp    `json:"op"`
	Path  string `json:"path_from_fresh_file,omitempty"`
}

type Judge func(t *Trans) (sig, desc string)

type Explorer struct {
	C        *fw.Ctx
	Cfg      ACfg
	Now0     int64
	Depth    int
	Gen      func(st AState, depth int) []AOp
	Full     func(st AState) []AOp
	Judge    Judge
	OnCore   func(st AState, rings []wsp.Ring) // once per distinct core state
	OnSucc   func(st AState, rings []wsp.Ring) // for every successor of the full alphabet (cheap observation)
	MaxCore  int
	rechecks int
}

type coreState struct {
	st    AState
	rings []wsp.Ring
	path  string
}

// Step performs one transition (real + model) and judges it.  It returns the
// successor state when the post bytes are a well-formed file.
func (e *Explorer) Step(st AState, rings []wsp.Ring, op AOp, depth int, path string) (AState, []wsp.Ring, bool) {
	c := e.C
	if op.Kind == "ADV" {
		c.Count("transitions", 1)
		c.Count("traces_validated_against_impl", 1)
		return AState{Bytes: st.Bytes, Now: st.Now + op.D}, rings, true
	}
	if !OpRepresentable(op, st.Now) {
		return AState{}, nil, false
	}
	t := e.run(st, rings, op, depth)
	c.Count("transitions", 1)
	if e.rechecks < 50 { // R2: replay and compare observations
		t2 := e.run(st, rings, op, depth)
		e.rechecks++
		c.Count("determinism_rechecks", 1)
		if !bytes.Equal(t.Obs.Post, t2.Obs.Post) || t.Obs.Err != t2.Obs.Err || (t.Obs.Panic == "") != (t2.Obs.Panic == "") {
			c.Inconclusive("harness: a transition replayed with different observations: " + op.String())
			return AState{}, nil, false
		}
	}
	switch {
	case t.Obs.Panic != "":
		c.Outcome(op.Kind + "/panic")
	case t.Obs.Err != "":
		c.Outcome(op.Kind + "/error")
	case t.Exp.Reject:
		c.Outcome(op.Kind + "/model-rejects")
	case len(t.Exp.Trace.Stats) > 0:
		c.Outcome(op.Kind + "/stored+propagated")
	default:
		c.Outcome(op.Kind + "/stored")
	}
	sig, desc := e.Judge(t)
	if sig != "" {
		ok := true
		for i := 0; i < 4; i++ {
			t2 := e.run(st, rings, op, depth)
			s2, _ := e.Judge(t2)
			ok = ok && s2 == sig
		}
		if !ok {
			c.Inconclusive("harness: violation " + sig + " did not reproduce 5/5")
		} else {
			kase := TransCase{Cfg: e.Cfg, Bytes: hexs(st.Bytes), Now: st.Now, Op: op, Path: path}
			w := len(st.Bytes)*10 + len(op.Ages)*100 + depth
			c.Violate(sig, desc, w, kase, goTestForTransition(e.Cfg, st, op, desc))
		}
	} else {
		c.Count("traces_validated_against_impl", 1)
	}
	if t.Post == nil {
		return AState{}, nil, false
	}
	return AState{Bytes: t.Obs.Post, Now: st.Now}, t.Post, true
}

func (e *Explorer) run(st AState, rings []wsp.Ring, op AOp, depth int) *Trans {
	t := &Trans{Cfg: e.Cfg, Pre: st, PreRings: rings, Op: op, Depth: depth}
	t.Obs = ApplyReal(e.C.Dir, e.Cfg, st, op)
	t.Exp = ApplyModel(e.Cfg.Layout(), rings, st.Now, op)
	if t.Obs.Post != nil {
		f, err := wsp.Parse(t.Obs.Post)
		if err != nil {
			t.PostErr = err.Error()
		} else {
			t.PostFile = f
			r, err := f.Rings()
			if err != nil {
				t.PostErr = err.Error()
			} else {
				t.Post = r
				t.Mism = CompareRings(e.Cfg.Archs, rings, t.Exp.Rings, r, t.Exp.Trace)
			}
		}
	}
	return t
}

// Run explores: BFS with the generator alphabet to Depth (core states), then
// the full alphabet from every core state.
func (e *Explorer) Run() {
	c := e.C
	fresh, err := CreateFile(c.Dir, e.Cfg)
	if err != nil {
		c.Inconclusive("Create failed for " + e.Cfg.Spec + ": " + err.Error())
		return
	}
	f0, err := wsp.Parse(fresh)
	if err != nil {
		c.Inconclusive("fresh file does not parse (C06 decides this): " + err.Error())
		return
	}
	r0, err := f0.Rings()
	if err != nil {
		c.Inconclusive("fresh file is not well-formed (C06 decides this): " + err.Error())
		return
	}
	st0 := AState{Bytes: fresh, Now: e.Now0}
	seen := map[string]bool{st0.Key(): true}
	core := []coreState{{st0, r0, ""}}
	frontier := core
	span := 2*e.Cfg.Archs[len(e.Cfg.Archs)-1].Ret() + Period(e.Cfg.Archs)
	horizon := e.Now0 + span
	for d := 0; d < e.Depth; d++ {
		var next []coreState
		for _, cs := range frontier {
			for _, op := range e.Gen(cs.st, d) {
				if c.Expired() {
					return
				}
				if op.Kind == "ADV" {
					jumpAmt := int64(0) // one long jump per path (LongJump or LongJump2); the horizon moves with it
					if cs.st.Now >= e.Now0+LongJump2 {
						jumpAmt = LongJump2
					} else if cs.st.Now >= e.Now0+LongJump {
						jumpAmt = LongJump
					}
					if op.D == LongJump || op.D == LongJump2 {
						if jumpAmt > 0 || cs.st.Now+op.D+span > math.MaxUint32 {
							continue
						}
					} else if cs.st.Now+op.D > horizon+jumpAmt {
						continue
					}
				}
				ns, nr, ok := e.Step(cs.st, cs.rings, op, d, cs.path)
				if !ok {
					continue
				}
				k := ns.Key()
				if seen[k] {
					continue
				}
				if e.MaxCore > 0 && len(core)+len(next) >= e.MaxCore {
					if c.R.Exhaustive {
						c.R.Notes = append(c.R.Notes, fmt.Sprintf("core-state cap %d reached at depth %d for %s: deeper generator paths not expanded", e.MaxCore, d, e.Cfg.Spec))
					}
					c.Count("core_cap_hits", 1)
					continue
				}
				seen[k] = true
				next = append(next, coreState{ns, nr, cs.path + op.String() + ";"})
			}
		}
		core = append(core, next...)
		frontier = next
		if d+1 > int(c.R.Counters["max_depth"]) {
			c.R.Counters["max_depth"] = int64(d + 1)
		}
	}
	c.Count("states", int64(len(core)))
	for _, cs := range core {
		if c.Expired() {
			return
		}
		if e.OnCore != nil {
			e.OnCore(cs.st, cs.rings)
		}
		if e.Full == nil {
			continue
		}
		for _, op := range e.Full(cs.st) {
			ns, nr, ok := e.Step(cs.st, cs.rings, op, e.Depth, cs.path)
			if ok && op.Kind != "ADV" {
				k := ns.Key()
				if !seen[k] {
					seen[k] = true
					c.Count("states", 1)
					if e.OnSucc != nil {
						e.OnSucc(ns, nr)
					}
				}
			}
		}
	}
	if e.Depth+1 > int(c.R.Counters["max_depth"]) && e.Full != nil {
		c.R.Counters["max_depth"] = int64(e.Depth + 1)
	}
}

// ReplayTransition re-executes a stored transition and judges it again.
func ReplayTransition(c *fw.Ctx, raw json.RawMessage, judge Judge) (bool, string) {
	var k TransCase
	if err := json.Unmarshal(raw, &k); err != nil {
		return false, err.Error()
	}
	k.Cfg.Archs = wsp.ParseLayout(k.Cfg.Spec)
	pre := unhex(k.Bytes)
	f, err := wsp.Parse(pre)
	if err != nil {
		return false, "pre-state does not parse: " + err.Error()
	}
	rings, err := f.Rings()
	if err != nil {
		return false, "pre-state: " + err.Error()
	}
	e := &Explorer{C: c, Cfg: k.Cfg}
	t := e.run(AState{Bytes: pre, Now: k.Now}, rings, k.Op, 0)
	sig, desc := judge(t)
	return sig != "", desc
}

package props

import (
	"bytes"
	"encoding/json"
	"fmt"
	"math"
	"os"
	"path/filepath"

	wt "github.com/hnakamur/whispertool"
	wcmd "github.com/hnakamur/whispertool/cmd"

	"verif/fw"
	"verif/wsp"
)

// C08 - copy.  Engine B over (source content x destination content) worlds,
// windows, archive selections and both NaN modes.  After a successful copy
// the destination is parsed and compared slot-wise with the source inside the
// requested window; the source bytes must be untouched, a missing destination
// must exist with the requested header, a second identical copy must change
// no byte and diff must list none of the constrained slots.

type c08Case struct {
	Layout  string  `json:"layout"`
	Method  uint32  `json:"method"`
	XFF     float32 `json:"xff"`
	Now     int64   `json:"now"`
	Src     []int   `json:"src_slots"`
	Dst     []int   `json:"dest_slots"`
	DstKind string  `json:"dest_kind"` // file | missing | fresh | other-layout
	Archive int     `json:"archive"`
	From    int64   `json:"from"`
	Until   int64   `json:"until"`
	CopyNaN bool    `json:"copy_nan"`
	Glob    bool    `json:"glob"`
	Laps    bool    `json:"source_holds_points_of_a_later_lap,omitempty"`
}

func init() {
	fw.Register(&fw.Prop{
		ID: "C08", Level: "exploration", Run: runC08, Replay: replayC08,
		Rule:        "a case = (source content, destination content or kind, clock, archive selection, window, NaN mode, method/xff); source contents enumerate {absent, v1, v2} per slot, destinations {absent, w} per slot plus missing / never-written / other layout; coarser archives are in general not aggregates of finer ones. Non-trivial = at least one selected slot of the window differed between source and destination before the copy and the copy reported success.",
		Assumptions: []string{"slots outside the requested window and source-NaN slots without -copy-nan are unconstrained", "a copy that ends in an error yields no verdict on the equality clauses (only 'nothing written' for a layout mismatch)"},
		NeedsInstr:  []string{"cmd:time.Now"},
	})
}

var c08SrcChoices = []SlotChoice{{Kind: "absent"}, {Kind: "value", V: 1}, {Kind: "value", V: -2}}
var c08DstChoices = []SlotChoice{{Kind: "absent"}, {Kind: "value", V: 5}, {Kind: "value", V: 1}}

// c08GlobVariants: the contents of the two glob sources whose destinations do not exist: the case's source code
// reversed, and rotated by one slot - sparse, and with their points at other times than the first source's.
func c08GlobVariants(l wsp.Layout, k c08Case) (*BFile, *BFile) {
	n := len(k.Src)
	rev, rot := make([]int, n), make([]int, n)
	for i, v := range k.Src {
		rev[n-1-i] = v
		rot[(i+1)%n] = v
	}
	return &BFile{L: l, Rings: contentByCode(l, k.Now, c08SrcChoices, rev)}, &BFile{L: l, Rings: contentByCode(l, k.Now, c08SrcChoices, rot), Base: basePicks(rot, len(l.Archs))}
}

func c08Eval(c *fw.Ctx, k c08Case) (sig, desc string, nontrivial bool, outcome string) {
	ld := LayoutByTag(k.Layout)
	l := wsp.Layout{Archs: ld.Archs, Method: k.Method, XFF: k.XFF}
	root := filepath.Join(c.Dir, "c08")
	os.RemoveAll(root)
	sdir, ddir := filepath.Join(root, "s"), filepath.Join(root, "d")
	os.MkdirAll(sdir, 0755)
	os.MkdirAll(ddir, 0755)
	rel := "a.wsp"
	if k.Glob {
		rel = "g/b.wsp"
	}
	srcCh := c08SrcChoices
	if k.Laps { // the third choice is a point of a later lap of the ring: the source has NO value there
		srcCh = []SlotChoice{{Kind: "absent"}, {Kind: "value", V: 1}, {Kind: "newer", V: 9}}
	}
	src := contentByCode(l, k.Now, srcCh, k.Src)
	sf := &BFile{L: l, Rings: src, Base: basePicks(k.Src, len(l.Archs))}
	sf.Write(filepath.Join(sdir, rel))
	srcBytes := sf.Bytes()
	dst := EmptyRings(l)
	dpath := filepath.Join(ddir, rel)
	switch k.DstKind {
	case "file":
		dst = contentByCode(l, k.Now, c08DstChoices, k.Dst)
		(&BFile{L: l, Rings: dst, Base: basePicks(k.Dst, len(l.Archs))}).Write(dpath)
	case "fresh":
		(&BFile{L: l, Rings: dst}).Write(dpath)
	case "almost-equal":
		// every destination slot holds a value one ulp away from the source's: it is a different value and must be replaced
		for i := range l.Archs {
			for c, s := range src[i] {
				if s.V != 0 && !math.IsNaN(s.V) {
					s.V = math.Nextafter(s.V, math.Inf(1))
				}
				dst[i][c] = s
			}
		}
		(&BFile{L: l, Rings: dst}).Write(dpath)
	case "coarser-equal":
		// every archive but the finest already equals the source
		for i := 1; i < len(l.Archs); i++ {
			for c, s := range src[i] {
				dst[i][c] = s
			}
		}
		(&BFile{L: l, Rings: dst}).Write(dpath)
	case "other-layout", "other-layout-points":
		o := LayoutByTag("L5")
		if k.Layout == "L5" {
			o = LayoutByTag("L4")
		}
		if k.DstKind == "other-layout-points" { // only the last archive's point count differs
			oa := append([]wsp.Arch{}, l.Archs...)
			oa[len(oa)-1].N++
			o = LayoutDef{Archs: oa}
		}
		(&BFile{L: wsp.Layout{Archs: o.Archs, Method: k.Method, XFF: k.XFF}, Rings: EmptyRings(wsp.Layout{Archs: o.Archs})}).Write(dpath)
	}
	if k.Glob {
		// two more source files: one with an identical destination, one without destination
		sf.Write(filepath.Join(sdir, "g", "a.wsp"))
		sf.Write(filepath.Join(ddir, "g", "a.wsp"))
		// two sources without destination, with contents (and ring phases) of their own: both destinations are created
		// by the same run, and each must end up holding ITS source's values
		globC, globD := c08GlobVariants(l, k)
		globC.Write(filepath.Join(sdir, "g", "c.wsp"))
		// a matched source that is a symbolic link to a whisper file elsewhere
		globD.Write(filepath.Join(sdir, "elsewhere", "real.wsp"))
		os.Symlink(filepath.Join(sdir, "elsewhere", "real.wsp"), filepath.Join(sdir, "g", "d.wsp"))
	}
	preDest, _ := os.ReadFile(dpath)
	until := k.Until
	if until == 0 {
		until = k.Now
	}
	out := filepath.Join(root, "out.txt")
	ctx := fmt.Sprintf("copy layout %s method=%s xff=%v now=%d src=%v dest=%v(%s) archive=%d from=%d until=%d copy-nan=%v glob=%v", k.Layout, methodName(k.Method), k.XFF, k.Now, k.Src, k.Dst, k.DstKind, k.Archive, k.From, k.Until, k.CopyNaN, k.Glob)
	mk := func() *wcmd.CopyCommand {
		cmd := &wcmd.CopyCommand{SrcBase: sdir, SrcRelPath: rel, DestBase: ddir, AggregationMethod: wt.AggregationMethod(k.Method), XFilesFactor: k.XFF,
			ArchiveInfoList: archList(l.Archs), From: tsOf(k.From), Until: tsOf(k.Until), ArchiveID: k.Archive, TextOut: out, CopyNaN: k.CopyNaN}
		if k.Glob {
			cmd.SrcRelPath = "g/*.wsp"
		}
		return cmd
	}
	err, pn := RunCommand(k.Now, mk())
	os.Remove(out)
	cls := classify(err, pn)
	outcome = cls
	if cls == "panic" {
		return "", "", false, "panic" // panics are C16's business
	}
	nowSrc, _ := os.ReadFile(filepath.Join(sdir, rel))
	if !bytes.Equal(nowSrc, srcBytes) {
		return "C08/source-modified", ctx + ": the source file changed", false, outcome
	}
	if k.DstKind == "other-layout" || k.DstKind == "other-layout-points" {
		post, _ := os.ReadFile(dpath)
		if cls == "nil" {
			return "C08/layout-mismatch-not-reported", ctx + ": copy into a destination with another layout reported success", true, outcome
		}
		if !bytes.Equal(post, preDest) {
			return "C08/layout-mismatch-wrote", ctx + ": the destination changed although the layouts differ", true, outcome
		}
		return "", "", true, outcome
	}
	if cls != "nil" {
		return "", "", false, outcome
	}
	post, rerr := os.ReadFile(dpath)
	if rerr != nil {
		return "C08/destination-not-created", ctx + ": copy succeeded but the destination does not exist", true, outcome
	}
	pf, perr := wsp.Parse(post)
	var got []wsp.Ring
	if perr == nil {
		got, perr = pf.Rings()
	}
	if perr != nil {
		return "C08/destination-unparsable", ctx + ": " + perr.Error(), true, outcome
	}
	if k.DstKind == "missing" {
		if !bytes.Equal(post[:l.HeaderSize()], l.EncodeHeader()) || int64(len(post)) != l.FileSize() {
			return "C08/created-with-wrong-layout", ctx + ": the created destination does not carry the requested layout/method/xff", true, outcome
		}
	}
	want, ok := ExpRead(l, src, k.Archive, k.From, until, k.Now)
	if !ok {
		return "C08/invalid-read-succeeded", ctx, false, outcome
	}
	pre, _ := ExpRead(l, dst, k.Archive, k.From, until, k.Now)
	have, _ := ExpRead(l, got, k.Archive, k.From, until, k.Now)
	clobbered := false
	for i := range want {
		if want[i] == nil {
			continue
		}
		for j, sv := range want[i].Vals {
			constrained := !math.IsNaN(sv) || k.CopyNaN
			if !constrained {
				continue
			}
			if !valEqual(sv, pre[i].Vals[j]) {
				nontrivial = true
			}
			if valEqual(sv, have[i].Vals[j]) && (math.IsNaN(sv) || sv == 0 || math.Float64bits(sv) == math.Float64bits(have[i].Vals[j])) {
				continue
			}
			t := want[i].Shape.From + int64(j)*want[i].Shape.Step
			clause := "wrong-value"
			switch {
			case valEqual(sv, pre[i].Vals[j]) && i > 0:
				clause = "slot-equal-before-copy-changed-in-coarser-archive"
				clobbered = true
			case valEqual(sv, pre[i].Vals[j]):
				clause = "slot-equal-before-copy-changed"
			case valEqual(pre[i].Vals[j], have[i].Vals[j]):
				clause = "not-copied"
			}
			if sig == "" {
				sig = "C08/dest-differs/" + clause
				desc = fmt.Sprintf("%s: archive %d t=%d: destination holds %v, source %v (destination before the copy: %v)", ctx, i, t, have[i].Vals[j], sv, pre[i].Vals[j])
			}
		}
	}
	if sig != "" {
		return sig, desc, nontrivial, outcome
	}
	if k.Glob {
		for _, f := range []string{"g/a.wsp", "g/c.wsp", "g/d.wsp"} {
			b, err := os.ReadFile(filepath.Join(ddir, f))
			if err != nil {
				return "C08/glob/file-not-copied", ctx + ": matched source " + f + " has no counterpart under the destination base", nontrivial, outcome
			}
			gf, err := wsp.Parse(b)
			if err != nil {
				return "C08/glob/unparsable", ctx + ": " + err.Error(), nontrivial, outcome
			}
			gr, err := gf.Rings()
			if err != nil {
				return "C08/glob/unparsable", ctx + ": " + f + ": " + err.Error(), nontrivial, outcome
			}
			h, _ := ExpRead(l, gr, k.Archive, k.From, until, k.Now)
			want := want
			if f != "g/a.wsp" {
				gc, gd := c08GlobVariants(l, k)
				own := gc
				if f == "g/d.wsp" {
					own = gd
				}
				want, _ = ExpRead(l, own.Rings, k.Archive, k.From, until, k.Now)
			}
			for i := range want {
				if want[i] == nil {
					continue
				}
				for j, sv := range want[i].Vals {
					if (!math.IsNaN(sv) || k.CopyNaN) && !valEqual(sv, h[i].Vals[j]) {
						return "C08/glob/dest-differs", fmt.Sprintf("%s: %s archive %d value %d is %v, source %v", ctx, f, i, j, h[i].Vals[j], sv), nontrivial, outcome
					}
				}
			}
		}
	}
	// repeating the same copy changes nothing
	err2, pn2 := RunCommand(k.Now, mk())
	os.Remove(out)
	post2, _ := os.ReadFile(dpath)
	if classify(err2, pn2) != "nil" || !bytes.Equal(post, post2) {
		_ = clobbered
		return "C08/second-copy-changes-file", fmt.Sprintf("%s: repeating the copy gives %s and changes the file: %v", ctx, classify(err2, pn2), !bytes.Equal(post, post2)), nontrivial, outcome
	}
	// a second session: the source changes in one slot (a new value, or a value where there was none) and the
	// same command runs again on the destination the first run left behind
	if !k.Glob && len(k.Src) > 0 {
		src2 := wsp.CloneRings(src)
		pos := 0
		for _, x := range k.Src {
			pos = pos*3 + x
		}
		done := false
		for i, a := range l.Archs {
			ts := SlotTimes(a, k.Now)
			t := ts[(pos+i)%len(ts)]
			cls := uint32(t/int64(a.Step)) % a.N
			if !done && (k.Archive == -1 || k.Archive == i) {
				src2[i][cls] = wsp.Slot{T: uint32(t), V: 42.5 + float64(i)}
				done = true
			}
		}
		(&BFile{L: l, Rings: src2, Base: sf.Base}).Write(filepath.Join(sdir, rel))
		err3, pn3 := RunCommand(k.Now, mk())
		os.Remove(out)
		if classify(err3, pn3) == "nil" {
			b3, _ := os.ReadFile(dpath)
			if f3, e3 := wsp.Parse(b3); e3 == nil {
				if r3, e3 := f3.Rings(); e3 == nil {
					w3, _ := ExpRead(l, src2, k.Archive, k.From, until, k.Now)
					h3, _ := ExpRead(l, r3, k.Archive, k.From, until, k.Now)
					for i := range w3 {
						if w3[i] == nil {
							continue
						}
						for j, sv := range w3[i].Vals {
							if (!math.IsNaN(sv) || k.CopyNaN) && !valEqual(sv, h3[i].Vals[j]) {
								return "C08/second-session/dest-differs", fmt.Sprintf("%s: after the source changed in one slot and the copy ran again: archive %d value %d is %v, source %v", ctx, i, j, h3[i].Vals[j], sv), nontrivial, outcome
							}
						}
					}
				} else {
					return "C08/second-session/destination-unparsable", ctx + ": " + e3.Error(), nontrivial, outcome
				}
			}
		}
		sf.Write(filepath.Join(sdir, rel)) // restore for the diff below
		RunCommand(k.Now, mk())
		os.Remove(out)
	}
	// diff over the same window lists none of the constrained slots
	dcmd := &wcmd.DiffCommand{SrcBase: sdir, SrcRelPath: rel, DestBase: ddir, From: tsOf(k.From), Until: tsOf(k.Until), ArchiveID: k.Archive, TextOut: out}
	derr, dpn := RunCommand(k.Now, dcmd)
	text := readAndRemove(out)
	dcls := classify(derr, dpn)
	if dcls == "panic" || dcls == "error" {
		return "C08/diff-after-copy/" + dcls, fmt.Sprintf("%s: diff after the copy: %v %s", ctx, derr, firstLine(dpn)), nontrivial, outcome
	}
	if k.CopyNaN && dcls != "nil" {
		return "C08/diff-after-copy/not-clean", ctx + ": diff reports a difference after a copy with -copy-nan", nontrivial, outcome
	}
	recs, _, _, _ := parseDiffLines(text)
	for _, r := range recs {
		if !math.IsNaN(r.Src) {
			return "C08/diff-after-copy/lists-copied-slot", fmt.Sprintf("%s: diff lists archive %d t=%d src=%v dest=%v", ctx, r.Arch, r.T, r.Src, r.Dst), nontrivial, outcome
		}
	}
	return "", "", nontrivial, outcome
}

// c08Big: a copy between files of several 4 KiB pages (700 + 14 slots): every slot of the window must arrive.
func c08Big(c *fw.Ctx) {
	l := wsp.Layout{Archs: LP.Archs, Method: 2, XFF: 0}
	now := Clocks(LP.Archs, false, []string{"mid"})[1]
	root := filepath.Join(c.Dir, "c08big")
	for variant := 0; variant < 4; variant++ {
		os.RemoveAll(root)
		src, dst := EmptyRings(l), EmptyRings(l)
		for i, a := range l.Archs {
			for j, t := range SlotTimes(a, now) {
				cls := uint32(t/int64(a.Step)) % a.N
				if (j+variant)%7 != 3 {
					src[i][cls] = wsp.Slot{T: uint32(t), V: float64(j*(i+1)) + 0.5}
				}
				if variant >= 1 && j%3 == 0 {
					dst[i][cls] = wsp.Slot{T: uint32(t), V: -1}
				}
				if variant == 3 && j%5 == 1 {
					dst[i][cls] = src[i][cls] // already equal
				}
			}
		}
		(&BFile{L: l, Rings: src, Base: []int{variant * 97, variant}}).Write(filepath.Join(root, "s", "a.wsp"))
		if variant >= 1 {
			(&BFile{L: l, Rings: dst, Base: []int{341, 2}}).Write(filepath.Join(root, "d", "a.wsp"))
		}
		for _, nan := range []bool{false, true} {
			cmd := &wcmd.CopyCommand{SrcBase: filepath.Join(root, "s"), SrcRelPath: "a.wsp", DestBase: filepath.Join(root, "d"), AggregationMethod: wt.Sum, ArchiveInfoList: archList(l.Archs), ArchiveID: -1, TextOut: "", CopyNaN: nan}
			err, pn := RunCommand(now, cmd)
			c.Count("evaluations", 1)
			if err != nil || pn != "" {
				continue
			}
			c.Count("successful_copies", 1)
			c.Count("distinct_nontrivial", 1)
			b, _ := os.ReadFile(filepath.Join(root, "d", "a.wsp"))
			f, perr := wsp.Parse(b)
			var got []wsp.Ring
			if perr == nil {
				got, perr = f.Rings()
			}
			if perr != nil {
				c.Violate("C08/big/destination-unparsable", fmt.Sprintf("copy of a 714-slot file (variant %d): %v", variant, perr), 9000, c08Case{Layout: "LP", Now: now, DstKind: fmt.Sprint("big", variant), CopyNaN: nan}, "")
				continue
			}
			want, _ := ExpRead(l, src, -1, 0, now, now)
			have, _ := ExpRead(l, got, -1, 0, now, now)
			for i := range want {
				for j, sv := range want[i].Vals {
					if (!math.IsNaN(sv) || nan) && !valEqual(sv, have[i].Vals[j]) {
						c.Violate("C08/big/dest-differs", fmt.Sprintf("copy of a 714-slot file spanning three pages (variant %d, copy-nan=%v): archive %d slot %d holds %v, source %v", variant, nan, i, j, have[i].Vals[j], sv), 9000+j, c08Case{Layout: "LP", Now: now, DstKind: fmt.Sprint("big", variant), CopyNaN: nan}, "")
						break
					}
				}
			}
		}
	}
}

func runC08(c *fw.Ctx) {
	if c.Shard == 0 {
		c08Big(c)
	}
	tags := []string{"L4", "L10"}
	if c.Thorough() {
		tags = append(tags, "L5")
	}
	c.R.Bounds["contents"] = "L4: all 243 source contents over {absent,1,-2} x all 32 destination contents over {absent,5} (+ {absent,5,1} for a third of the sources) + missing / never-written / other-layout destinations; thorough adds L5 (8 slots) with a sampled source set"
	c.R.Bounds["options"] = "archive all/0/1 x 5 windows (default, newest slot, inside, beyond archive 0's retention, beyond all) x copy-nan on/off x (sum,0) (last,0.5) (average,0)"
	cells := map[string][2]int64{}
	for _, tag := range tags {
		ld := LayoutByTag(tag)
		ns := 0
		for _, a := range ld.Archs {
			ns += int(a.N)
		}
		clocks := Clocks(ld.Archs, false, []string{"mid"})
		now := clocks[1]
		rmax, r0 := ld.Archs[len(ld.Archs)-1].Ret(), ld.Archs[0].Ret()
		wins := [][2]int64{{0, 0}, {now - 1, now}, {now - 3, now - 1}, {now - r0 - 2, now - r0}, {now - rmax - 4, now - rmax - 1},
			// wholly older than the finest archive's retention, still covered by a coarser one
			{now - r0 - 3, now - r0 - 1}}
		srcs := allCodes(ns, 3)
		dsts2 := allCodes(ns, 2)
		dsts3 := allCodes(ns, 3)
		if tag == "L5" {
			var s2 [][]int
			for i, s := range srcs {
				sum := 0
				for _, d := range s {
					sum += d
				}
				if (i/3+sum)%41 == 0 {
					s2 = append(s2, s)
				}
			}
			srcs = s2
			dsts2 = dsts2[:64]
		}
		if tag == "L10" && !c.Thorough() {
			// three levels: every third source content, destinations over {absent, 5} plus "equal to the source in the coarser archives"
			var s2 [][]int
			for _, s := range srcs {
				sum := 0
				for _, d := range s {
					sum += d
				}
				if sum%3 == 0 { // digit sum, so that no single slot is pinned to one choice
					s2 = append(s2, s)
				}
			}
			srcs = s2
			dsts2 = dsts2[:32]
		}
		mx := [][2]float32{{2, 0}, {3, 0.5}, {1, 0}}
		for si, s := range srcs {
			dsts := dsts2
			if si%3 == 0 && tag == "L4" && c.Thorough() {
				dsts = dsts3
			}
			for di := -6; di < len(dsts); di++ {
				if !c.Mine() {
					continue
				}
				if c.Expired() {
					return
				}
				kind := "file"
				var d []int
				switch di {
				case -6:
					kind = "almost-equal"
				case -5:
					kind = "other-layout-points"
				case -4:
					kind = "coarser-equal"
				case -3:
					kind = "missing"
				case -2:
					kind = "fresh"
				case -1:
					kind = "other-layout"
				default:
					d = dsts[di]
				}
				archSel := []int{-1, 0, 1}
				if len(ld.Archs) > 2 {
					archSel = append(archSel, 2)
				}
				for ai, arch := range archSel {
					for wi, w := range wins {
						for ni, cn := range []bool{false, true} {
							m := mx[(si+di+6+ai+wi+ni)%len(mx)]
							if !c.Thorough() && (wi > 1 || ai > 0) && (si+di+ai+wi+ni)%3 != 0 {
								continue
							}
							k := c08Case{Layout: tag, Method: uint32(m[0]), XFF: m[1], Now: now, Src: s, Dst: d, DstKind: kind, Archive: arch, From: w[0], Until: w[1], CopyNaN: cn}
							c08One(c, k, cells)
						}
					}
				}
				if (si+di)%5 == 0 {
					// the source holds points of a later lap (a writer whose clock ran ahead): they are not values of this window
					for _, cn := range []bool{false, true} {
						c08One(c, c08Case{Layout: tag, Method: 2, Now: now, Src: s, Dst: d, DstKind: kind, Archive: -1, CopyNaN: cn, Laps: true}, cells)
					}
				}
				if (si+di)%11 == 0 && kind == "file" {
					c08One(c, c08Case{Layout: tag, Method: 2, Now: now, Src: s, Dst: d, DstKind: kind, Archive: -1, CopyNaN: true, Glob: true}, cells)
				}
			}
		}
	}
	// vacuity: cells (selection x window kind x nan mode) without a single successful copy
	var vac []string
	for cell, n := range cells {
		if n[0] == 0 {
			vac = append(vac, cell)
		}
	}
	if len(vac) > 0 {
		c.R.Notes = append(c.R.Notes, fmt.Sprintf("cells without a successful copy in shard %d: %v", c.Shard, vac))
	}
}

func c08One(c *fw.Ctx, k c08Case, cells map[string][2]int64) {
	sig, desc, nt, outcome := c08Eval(c, k)
	c.Count("evaluations", 1)
	if nt && outcome == "nil" {
		c.Count("distinct_nontrivial", 1)
	}
	c.Outcome(outcome)
	cell := fmt.Sprintf("archive=%d/window=(%d,%d)/nan=%v", k.Archive, k.From-k.Now, k.Until, k.CopyNaN)
	v := cells[cell]
	if outcome == "nil" {
		v[0]++
		c.Count("successful_copies", 1)
	} else {
		v[1]++
	}
	cells[cell] = v
	if sig != "" {
		n := 0
		for _, x := range append(append([]int{}, k.Src...), k.Dst...) {
			if x != 0 {
				n++
			}
		}
		c.Violate(sig, desc, n, k, "")
	}
	if nt && outcome == "nil" && k.Archive == -1 {
		c.Sample(3, k)
	}
}

func replayC08(c *fw.Ctx, raw json.RawMessage) (bool, string) {
	var k c08Case
	if err := json.Unmarshal(raw, &k); err != nil {
		return false, err.Error()
	}
	if k.Layout == "LP" {
		c2 := &fw.Ctx{Prop: c.Prop, Tier: "quick", Of: 1, Dir: c.Dir, Deadline: c.Deadline, R: fw.NewResult()}
		c08Big(c2)
		for _, v := range c2.R.Violations {
			return true, v.Desc
		}
		return false, "big copies arrive complete"
	}
	sig, desc, _, _ := c08Eval(c, k)
	return sig != "", desc
}

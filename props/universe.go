package props

import (
	"verif/wsp"
)

// The shared small-scope universe (DESIGN.md section 5).

type LayoutDef struct {
	Tag   string
	Spec  string
	Archs []wsp.Arch
}

func L(tag, spec string) LayoutDef {
	return LayoutDef{Tag: tag, Spec: spec, Archs: wsp.ParseLayout(spec)}
}

var CoreLayouts = []LayoutDef{
	L("L1", "1s:1s"),
	L("L2", "1s:2s"),
	L("L3", "2s:6s"),
	L("L4", "1s:2s,2s:6s"),
	L("L5", "1s:4s,2s:8s"),
	L("L6", "1s:7s,4s:8s,8s:16s"),
	L("L7", "1s:3s,3s:12s,12s:48s"),
	L("L8", "2s:8s,6s:18s"),
	L("L9", "1s:2s,2s:6s,4s:16s,8s:40s"),
}

var LP = L("LP", "1s:700s,100s:1400s")

func LayoutByTag(tag string) LayoutDef {
	for _, l := range CoreLayouts {
		if l.Tag == tag {
			return l
		}
	}
	if tag == "LP" {
		return LP
	}
	if tag == "L11" { // steps with prime factors other than 2 and 3
		return L("L11", "7s:35s,35s:140s")
	}
	if tag == "LH" { // an archive of 8000 slots (24 pages)
		return L("LH", "1s:8000s,400s:16000s")
	}
	if tag == "LQ" { // an archive of 1500 slots (18 KB): batches larger than any plausible write-behind threshold
		return L("LQ", "1s:1500s,300s:6000s")
	}
	if tag == "L10" { // smallest three-level layout (6 slots): used where contents are enumerated per slot
		return L("L10", "1s:2s,2s:4s,4s:8s")
	}
	panic("no layout " + tag)
}

// AllSmallLayouts enumerates every valid archive list with k<=3, S0 in {1,2,3},
// ratios in {2,3,4}, Ni<=8, sum Ni<=16 (the thorough tier's layout space).
func AllSmallLayouts() []LayoutDef {
	var out []LayoutDef
	var rec func(cur []wsp.Arch, total uint32)
	rec = func(cur []wsp.Arch, total uint32) {
		if len(cur) > 0 {
			out = append(out, LayoutDef{Tag: "S" + wsp.LayoutString(cur), Spec: wsp.LayoutString(cur), Archs: append([]wsp.Arch{}, cur...)})
		}
		if len(cur) == 3 {
			return
		}
		if len(cur) == 0 {
			for _, s := range []uint32{1, 2, 3} {
				for n := uint32(1); n <= 8; n++ {
					rec([]wsp.Arch{{Step: s, N: n}}, n)
				}
			}
			return
		}
		prev := cur[len(cur)-1]
		for _, ratio := range []uint32{2, 3, 4} {
			if prev.N < ratio {
				continue
			}
			s := prev.Step * ratio
			for n := uint32(1); n <= 8 && total+n <= 16; n++ {
				if int64(s)*int64(n) <= prev.Ret() {
					continue
				}
				rec(append(append([]wsp.Arch{}, cur...), wsp.Arch{Step: s, N: n}), total+n)
			}
		}
	}
	rec(nil, 0)
	return out
}

// ThoroughExtraLayouts: every small layout with k<=2 and every 12th three-level one (the thorough tier's
// additional layouts; they are explored with the quick tier's per-layout settings).
func ThoroughExtraLayouts() []LayoutDef {
	var out []LayoutDef
	n3 := 0
	for _, l := range AllSmallLayouts() {
		if len(l.Archs) <= 2 {
			out = append(out, l)
			continue
		}
		n3++
		if n3%12 == 5 {
			out = append(out, l)
		}
	}
	return out
}

func gcd(a, b int64) int64 {
	for b != 0 {
		a, b = b, a%b
	}
	return a
}

// Period is lcm(Ni*Si): everything about a layout is periodic in the clock with it.
func Period(a []wsp.Arch) int64 {
	p := int64(1)
	for _, x := range a {
		r := x.Ret()
		p = p / gcd(p, r) * r
	}
	return p
}

const (
	EraMid  = int64(1700000000)
	EraHigh = int64(1)<<31 + 1000000
)

// Clocks returns the initial clocks for a layout: phases within the period in the given eras.
func Clocks(a []wsp.Arch, thorough bool, eras []string) []int64 {
	P := Period(a)
	rmax := a[len(a)-1].Ret()
	var phases []int64
	if thorough && P <= 96 {
		for i := int64(0); i < P; i++ {
			phases = append(phases, i)
		}
	} else {
		set := map[int64]bool{}
		s1 := int64(a[len(a)-1].Step)
		for _, ph := range []int64{0, 1, s1 - 1, s1, P - 1, P / 2} {
			ph = ((ph % P) + P) % P
			if !set[ph] {
				set[ph] = true
				phases = append(phases, ph)
			}
		}
	}
	var out []int64
	for _, e := range eras {
		var t0 int64
		switch e {
		case "mid":
			t0 = EraMid - EraMid%P
		case "high":
			t0 = EraHigh - EraHigh%P
		case "low":
			t0 = (rmax + P + P - 1) / P * P
		}
		for _, ph := range phases {
			out = append(out, t0+ph)
		}
	}
	return out
}

var Vals = []float64{1, -2, 4}

// Ages returns the age set of a layout: -1,0,1, each retention +-1, and all ages when Rmax<=24.
func Ages(a []wsp.Arch) []int64 {
	set := map[int64]bool{-1: true, 0: true, 1: true}
	for _, x := range a {
		r := x.Ret()
		set[r-1], set[r], set[r+1] = true, true, true
	}
	rmax := a[len(a)-1].Ret()
	if rmax <= 24 {
		for i := int64(0); i <= rmax+1; i++ {
			set[i] = true
		}
	}
	var out []int64
	for i := int64(-1); i <= rmax+1; i++ {
		if set[i] {
			out = append(out, i)
		}
	}
	return out
}

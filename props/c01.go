package props

import (
	"encoding/json"
	"fmt"
	"math"
	"os"
	"path/filepath"

	wt "github.com/hnakamur/whispertool"

	"verif/fw"
	"verif/model"
	"verif/vrt"
	"verif/wsp"
)

// C01 - ring storage.  Engine A over layouts x page sizes x eras x phases with
// method sum / xff 0 and operations whose routing is trivial (explicit
// archive).  Two oracles: (write side) the parsed post-state equals the ring
// model on every directly written slot and on every slot the model leaves
// alone in the written or a finer archive; (read side) every fetch of the
// full window sweep equals the ring model evaluated on the parsed bytes.

type fetchCase struct {
	Kind  string `json:"kind"`
	Cfg   ACfg   `json:"cfg"`
	Bytes string `json:"bytes_hex"`
	Now   int64  `json:"now"`
	ID    int    `json:"archive_id"`
	From  int64  `json:"from"`
	Until int64  `json:"until"`
}

func init() {
	fw.Register(&fw.Prop{
		ID: "C01", Level: "model_checking", Run: runC01, Replay: replayC01,
		Rule: "states = distinct (file bytes, clock) reached; transitions = real library updates (and clock advances) applied to a state, each validated slot-for-slot against the ring model via the independent parser; fetches = FetchFromArchive calls of the full window sweep on every core state, each compared with the ring model evaluated on the parsed bytes.",
		Assumptions: []string{"ring model (model.go) and format parser (wsp.go) are the trusted base", "mismatches in slots written by propagation are C02's, routing C03's, shapes C04's: not reported here",
			"bounds: see coverage.bounds"},
		NeedsInstr: []string{"whispertool:os.Getpagesize"},
	})
}

func dedupAges(in []int64, lo, hi int64) []int64 {
	seen := map[int64]bool{}
	var out []int64
	for _, a := range in {
		if a >= lo && a < hi && !seen[a] {
			seen[a] = true
			out = append(out, a)
		}
	}
	return out
}

// ambiguousOrder: two points in the same slot with different timestamps supplied newest first
// (the statement's "supplied last" and time order disagree) - not generated.
func ambiguousOrder(step int64, now int64, ages []int64) bool {
	for i := 0; i < len(ages); i++ {
		for j := i + 1; j < len(ages); j++ {
			ti, tj := now-ages[i], now-ages[j]
			if ti != tj && ti/step == tj/step && ti > tj {
				return true
			}
		}
	}
	return false
}

func seqs(set []int64, n int) [][]int64 {
	if n == 0 {
		return [][]int64{{}}
	}
	var out [][]int64
	for _, s := range seqs(set, n-1) {
		for _, a := range set {
			out = append(out, append(append([]int64{}, s...), a))
		}
	}
	return out
}

func denseBatch(a wsp.Arch, arch int) AOp {
	op := AOp{Kind: "WB", Arch: arch}
	for age := a.Ret() - 1; age >= 0; age -= int64(a.Step) {
		op.Ages = append(op.Ages, age)
		op.Vals = append(op.Vals, Vals[len(op.Ages)%3])
	}
	return op
}

// LongJump is a clock advance of 6.3 years (more than 2^31/12 seconds).
const LongJump = int64(200000000)

// LongJump2 is a clock advance of 12.7 years: more than 2^31/12 slots of 2 s.
const LongJump2 = int64(400000006)

func c01Gen(archs []wsp.Arch) func(AState, int) []AOp {
	rmax := archs[len(archs)-1].Ret()
	return func(st AState, d int) []AOp {
		v := Vals[d%3]
		var ops []AOp
		for i, a := range archs {
			ops = append(ops, AOp{Kind: "W1", Arch: i, Ages: []int64{0}, Vals: []float64{v}})
			if a.Ret() > 1 {
				ops = append(ops, AOp{Kind: "W1", Arch: i, Ages: []int64{a.Ret() - 1}, Vals: []float64{v}})
			}
		}
		ops = append(ops, denseBatch(archs[0], 0))
		if d > 0 {
			// an explicit "no value" written over the oldest and the newest interval of the finest archive (what copying
			// NaN does): the slot then holds (interval, NaN); on a densely written ring the oldest one is the ring's base
			ops = append(ops, AOp{Kind: "WB", Arch: 0, Ages: []int64{archs[0].Ret() - 1, 0}, Vals: []float64{NaNVal, NaNVal}})
		}
		for _, d := range dedupAges([]int64{1, int64(archs[len(archs)-1].Step), archs[0].Ret(), rmax + 1}, 1, 1<<40) {
			ops = append(ops, AOp{Kind: "ADV", D: d})
		}
		if d == 1 {
			// a metric that goes dormant for years: the base interval ends up > 2^31/12 slots away
			ops = append(ops, AOp{Kind: "ADV", D: LongJump})
		}
		return ops
	}
}

func c01Full(archs []wsp.Arch) func(AState) []AOp {
	rmax := archs[len(archs)-1].Ret()
	ages := dedupAges(Ages(archs), 0, rmax)
	return func(st AState) []AOp {
		var ops []AOp
		for i, a := range archs {
			for _, age := range ages {
				ops = append(ops, AOp{Kind: "W1", Arch: i, Ages: []int64{age}, Vals: []float64{4}})
			}
			// at and beyond the acceptance boundary: whether it is accepted is C03's business, but if the library
			// writes, the write lands on a live slot of some ring - the ring model says nothing may change
			for _, age := range []int64{rmax, rmax + 1, -1} {
				ops = append(ops, AOp{Kind: "W1", Arch: i, Ages: []int64{age}, Vals: []float64{-2}})
			}
			s := int64(a.Step)
			set := dedupAges([]int64{0, 1, s - 1, s, a.Ret() - s, a.Ret() - 1}, 0, a.Ret())
			for n := 2; n <= 3; n++ {
				for _, sq := range seqs(set, n) {
					if ambiguousOrder(s, st.Now, sq) {
						continue
					}
					ops = append(ops, AOp{Kind: "WB", Arch: i, Ages: sq, Vals: Vals[:n]})
				}
			}
			ops = append(ops, denseBatch(a, i))
			// future-dated points in a batch to a named archive (a sender with a fast clock): the ring stores them
			// under their own interval, and a fetch must not report them for the older interval they displaced
			for _, fa := range dedupAges([]int64{-1, -s, -(a.Ret() - s), -(a.Ret() - 1)}, -1<<40, 0) {
				ops = append(ops, AOp{Kind: "WB", Arch: i, Ages: []int64{1, fa}, Vals: []float64{1, -2}})
			}
		}
		// clock-global variants: ages inside archive 0's retention route trivially to archive 0
		for _, age := range dedupAges([]int64{0, 1, archs[0].Ret() - 1}, 0, archs[0].Ret()) {
			ops = append(ops, AOp{Kind: "W1G", Arch: -1, Ages: []int64{age}, Vals: []float64{-2}})
		}
		g := denseBatch(archs[0], -1)
		g.Kind = "WBG"
		ops = append(ops, g)
		return ops
	}
}

func c01Judge(t *Trans) (string, string) {
	if t.Obs.OpenErr != "" || t.Obs.Panic != "" || t.Obs.Err != "" {
		return "", "" // acceptance and panics are C03's / C02's business
	}
	if t.PostErr != "" {
		return "C01/placement", fmt.Sprintf("layout %s now=%d %s: post-state violates slot addressing: %s", t.Cfg.Spec, t.Pre.Now, t.Op, t.PostErr)
	}
	written := t.Op.Arch
	if written < 0 {
		written = 0
	}
	for _, m := range t.Mism {
		if m.Kind == "direct" || (m.Kind == "untouched" && m.Arch <= written) {
			return "C01/write/" + m.Kind, fmt.Sprintf("layout %s page=%d now=%d %s: archive %d class %d holds %s, ring model says %s", t.Cfg.Spec, t.Cfg.Page, t.Pre.Now, t.Op, m.Arch, m.Class, m.Got, m.Want)
		}
	}
	return "", ""
}

// c01Fetch evaluates one fetch against the ring model on the parsed bytes.
func c01Fetch(cfg ACfg, rings []wsp.Ring, db *wt.Whisper, id int, w Window, now int64) (sig, desc string, checked bool) {
	sh := model.FetchShape(cfg.Archs, id, w.From, w.Until, now)
	obs := RealFetch(db, id, w, now)
	if sh.Err || sh.Nil || !ShapeMatches(sh, obs) {
		return "", "", false // C04 decides shapes
	}
	want := model.Fetch(cfg.Archs, rings, sh)
	ok, i := valsEqual(want, obs.Vals)
	if ok {
		return "", "", true
	}
	clause := "wrong-value"
	if math.IsNaN(want[i]) {
		clause = "value-for-empty-or-stale-slot"
	} else if math.IsNaN(obs.Vals[i]) {
		clause = "value-missing"
	}
	return "C01/fetch/" + clause, fmt.Sprintf("layout %s page=%d now=%d FetchFromArchive(%d, %d, %d): value %d (t=%d) is %v, ring model says %v", cfg.Spec, cfg.Page, now, id, w.From, w.Until, i, sh.From+int64(i)*sh.Step, obs.Vals[i], want[i]), true
}

func c01Raw(cfg ACfg, f *wsp.File, db *wt.Whisper) (string, string) {
	for i := range cfg.Archs {
		var pts wt.Points
		var err error
		if p, _ := fw.Guard(func() { pts, err = db.GetAllRawUnsortedPoints(i) }); p || err != nil {
			return "C01/raw/failed", fmt.Sprintf("GetAllRawUnsortedPoints(%d) failed: %v", i, err)
		}
		if len(pts) != len(f.Slots[i]) {
			return "C01/raw/count", fmt.Sprintf("GetAllRawUnsortedPoints(%d) returned %d points, archive has %d slots", i, len(pts), len(f.Slots[i]))
		}
		for j, p := range pts {
			s := f.Slots[i][j]
			if uint32(p.Time) != s.T || math.Float64bits(float64(p.Value)) != math.Float64bits(s.V) {
				return "C01/raw/slot", fmt.Sprintf("layout %s: raw slot %d of archive %d is %v, bytes say (%d,%v)", cfg.Spec, j, i, p, s.T, s.V)
			}
		}
	}
	return "", ""
}

func c01Sweep(c *fw.Ctx, cfg ACfg, st AState, rings []wsp.Ring, full bool, lite bool) {
	vrt.SetPagesize(cfg.Page)
	p := filepath.Join(c.Dir, "sweep.wsp")
	os.WriteFile(p, st.Bytes, 0644)
	db, err := wt.Open(p)
	if err != nil {
		c.Count("open_failed", 1)
		return
	}
	defer db.Close()
	f, _ := wsp.Parse(st.Bytes)
	var wins []Window
	ids := []int{-1}
	for i := range cfg.Archs {
		ids = append(ids, i)
	}
	if lite {
		rmax := cfg.Archs[len(cfg.Archs)-1].Ret()
		wins = []Window{{st.Now - rmax - 1, st.Now}, {0, st.Now}}
		for _, a := range cfg.Archs {
			wins = append(wins, Window{st.Now - a.Ret(), st.Now})
		}
	} else {
		wins = Windows(cfg.Archs, st.Now, full)
		if cfg.Tag == "LH" {
			// pairs over a few instants: the retention edge, lengths around 5461 slots, the newest slots
			wins = nil
			r0 := cfg.Archs[0].Ret()
			ins := []int64{st.Now - r0 - 1, st.Now - r0, st.Now - r0 + 1, st.Now - 5470, st.Now - 5461, st.Now - 2539, st.Now - 3, st.Now - 1, st.Now, st.Now + 1}
			for i, f := range ins {
				for _, u := range ins[i:] {
					wins = append(wins, Window{f, u})
				}
			}
			wins = append(wins, Window{st.Now - cfg.Archs[1].Ret(), st.Now}, Window{0, st.Now})
		}
		if sig, desc := c01Raw(cfg, f, db); sig != "" {
			c.Violate(sig, desc, len(st.Bytes), fetchCase{Kind: "raw", Cfg: cfg, Bytes: hexs(st.Bytes), Now: st.Now}, "")
		}
	}
	for _, id := range ids {
		for _, w := range wins {
			sig, desc, checked := c01Fetch(cfg, rings, db, id, w, st.Now)
			if checked {
				c.Count("fetches", 1)
			}
			if sig != "" {
				c.Violate(sig, desc, len(st.Bytes)*10+int(w.Until-w.From), fetchCase{Kind: "fetch", Cfg: cfg, Bytes: hexs(st.Bytes), Now: st.Now, ID: id, From: w.From, Until: w.Until}, "")
			}
		}
	}
	// vacuity counters: how many slots are stale laps / wrapped
	for i, a := range cfg.Archs {
		for _, s := range rings[i] {
			if int64(s.T) <= st.Now-a.Ret() {
				c.Count("stale_slots_seen", 1)
			}
		}
		if f != nil && f.Slots[i][0].T != 0 {
			c.Count("written_archives_seen", 1)
		}
	}
}

type aConfig struct {
	ld   LayoutDef
	page int
	now  int64
}

// aConfigs: layouts x clocks (page 4096) plus small pages on two phases of the mid era.
func aConfigs(c *fw.Ctx, layouts []LayoutDef, eras []string, smallPages []int) []aConfig {
	var out []aConfig
	for _, ld := range layouts {
		for _, era := range eras {
			clocks := Clocks(ld.Archs, c.Thorough(), []string{era})
			if !c.Thorough() && era != "mid" && len(clocks) > 2 {
				clocks = []int64{clocks[0], clocks[len(clocks)-1]} // quick: two phases outside the mid era
			}
			for _, now := range clocks {
				out = append(out, aConfig{ld, 4096, now})
			}
		}
		mid := Clocks(ld.Archs, false, []string{"mid"})
		for _, pg := range smallPages {
			for _, now := range []int64{mid[0], mid[len(mid)-1]} {
				out = append(out, aConfig{ld, pg, now})
			}
		}
	}
	return out
}

func runC01(c *fw.Ctx) {
	type plan struct {
		ac      aConfig
		depth   int
		maxCore int
	}
	var plans []plan
	depth, maxCore, pages := 3, 300, []int{16, 20}
	if c.Thorough() {
		depth, maxCore, pages = 4, 3000, []int{16, 20, 64}
	}
	for _, ac := range aConfigs(c, CoreLayouts, []string{"mid", "high", "low"}, pages) {
		plans = append(plans, plan{ac, depth, maxCore})
	}
	// the multi-page layout at the real page size: fewer, larger states
	for _, now := range Clocks(LP.Archs, false, []string{"mid"})[:2] {
		plans = append(plans, plan{aConfig{LP, 4096, now}, 2, 40})
	}
	// steps with prime factors other than 2 and 3 (7 s and 35 s)
	l11 := LayoutByTag("L11")
	for _, now := range Clocks(l11.Archs, false, []string{"mid"}) {
		plans = append(plans, plan{aConfig{l11, 4096, now}, depth, maxCore})
	}
	// an archive of 8000 slots (24 pages): windows far longer than any chunk or page a reader might use
	lh := L("LH", "1s:8000s,400s:16000s")
	for _, now := range Clocks(lh.Archs, false, []string{"mid"})[1:2] {
		plans = append(plans, plan{aConfig{lh, 4096, now}, 2, 6}) // the densely written state must be a core state (full sweep)
	}
	nextra := 0
	if c.Thorough() {
		// many more layouts, each with the quick tier's settings on three clocks of the mid era
		for _, ld := range ThoroughExtraLayouts() {
			nextra++
			cl := Clocks(ld.Archs, false, []string{"mid"})
			for _, now := range []int64{cl[0], cl[len(cl)/2], cl[len(cl)-1]} {
				plans = append(plans, plan{aConfig{ld, 4096, now}, 3, 200})
			}
		}
	}
	c.R.Bounds["layouts"] = fmt.Sprintf("core L1-L9 + L11 (steps 7 s / 35 s) + LP (700 slots) + LH (8000 slots, depth 2, 6 core states); thorough: + %d further layouts (every valid list with k<=2, S0<=3, ratio<=4, Ni<=8 and every 12th three-level one) at depth 3", nextra)
	c.R.Bounds["history"] = fmt.Sprintf("generator depth %d + 1 operation of the full alphabet from every core state", depth)
	c.R.Bounds["batch"] = "<=3 arbitrary points in every order + dense batches + future-dated points"
	c.R.Bounds["pages"] = fmt.Sprintf("4096 on every clock; %v on two phases", pages)
	c.R.Bounds["core_states_per_config"] = fmt.Sprint(maxCore)
	c.R.Bounds["method"] = "sum, xff 0"
	for _, pl := range plans {
		if !c.Mine() {
			continue
		}
		if c.Expired() {
			return
		}
		ac := pl.ac
		cfg := ACfg{Tag: ac.ld.Tag, Spec: ac.ld.Spec, Archs: ac.ld.Archs, Method: 2, XFF: 0, Page: ac.page}
		e := &Explorer{C: c, Cfg: cfg, Now0: ac.now, Depth: pl.depth, Gen: c01Gen(cfg.Archs), Full: c01Full(cfg.Archs), Judge: c01Judge, MaxCore: pl.maxCore}
		if cfg.Tag == "LH" {
			// 8000-slot operations are costly: from the core states only the generator alphabet (incl. the dense batch)
			gen := c01Gen(cfg.Archs)
			e.Full = func(st AState) []AOp { return gen(st, 0) }
		}
		e.OnCore = func(st AState, rings []wsp.Ring) { c01Sweep(c, cfg, st, rings, false, false) }
		e.OnSucc = func(st AState, rings []wsp.Ring) { c01Sweep(c, cfg, st, rings, false, true) }
		e.Run()
		c.Sample(3, map[string]any{"layout": cfg.Spec, "page": cfg.Page, "now0": ac.now, "generator_ops_at_depth0": fmt.Sprint(e.Gen(AState{Now: ac.now}, 0)), "full_alphabet_size": len(e.Full(AState{Now: ac.now}))})
	}
}

func replayC01(c *fw.Ctx, raw json.RawMessage) (bool, string) {
	var probe struct {
		Kind string `json:"kind"`
	}
	json.Unmarshal(raw, &probe)
	if probe.Kind == "" {
		return ReplayTransition(c, raw, c01Judge)
	}
	var k fetchCase
	json.Unmarshal(raw, &k)
	k.Cfg.Archs = wsp.ParseLayout(k.Cfg.Spec)
	b := unhex(k.Bytes)
	f, err := wsp.Parse(b)
	if err != nil {
		return false, err.Error()
	}
	rings, err := f.Rings()
	if err != nil {
		return false, err.Error()
	}
	vrt.SetPagesize(k.Cfg.Page)
	p := filepath.Join(c.Dir, "r.wsp")
	os.WriteFile(p, b, 0644)
	db, err := wt.Open(p)
	if err != nil {
		return false, err.Error()
	}
	defer db.Close()
	if k.Kind == "raw" {
		sig, desc := c01Raw(k.Cfg, f, db)
		return sig != "", desc
	}
	sig, desc, _ := c01Fetch(k.Cfg, rings, db, k.ID, Window{k.From, k.Until}, k.Now)
	return sig != "", desc
}

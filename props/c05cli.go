package props

import (
	"bytes"
	"encoding/json"
	"fmt"
	"os"
	"path/filepath"

	wt "github.com/hnakamur/whispertool"
	wcmd "github.com/hnakamur/whispertool/cmd"

	"verif/fw"
	"verif/wsp"
)

// C05, CLI clause: a copy / sum-copy that fails before its final Sync leaves an
// existing destination byte-for-byte untouched.  Faults: the text report cannot
// be written (text-out on /dev/full with a report larger than the 4 KiB buffer,
// so the write error surfaces while the report is printed, i.e. after the
// in-memory update and before the Sync), a layout mismatch, an unreadable source.

type c05CLICase struct {
	CLI   string `json:"cli"` // copy | sum-copy
	Fault string `json:"fault"`
	Fill  int    `json:"source_fill_every"`
	Arch  int    `json:"archive"`
	NaN   bool   `json:"copy_nan"`
	Big   bool   `json:"big,omitempty"`
}

func c05CLIEval(c *fw.Ctx, k c05CLICase) (sig, desc string) {
	root := filepath.Join(c.Dir, "c05cli")
	os.RemoveAll(root)
	l := wsp.Layout{Archs: wsp.ParseLayout("1s:200s,100s:400s"), Method: 2, XFF: 0}
	if k.Big { // more than 16384 points to write in one run (20400 slots)
		l = wsp.Layout{Archs: wsp.ParseLayout("1s:20000s,100s:40000s"), Method: 2, XFF: 0}
	}
	now := int64(1700000123)
	src := EmptyRings(l)
	dst := EmptyRings(l)
	for i, a := range l.Archs {
		for j, t := range SlotTimes(a, now) {
			cls := uint32(t/int64(a.Step)) % a.N
			if j%k.Fill == 0 {
				src[i][cls] = wsp.Slot{T: uint32(t), V: float64(j) + 0.25}
			}
			if j%3 == 0 {
				dst[i][cls] = wsp.Slot{T: uint32(t), V: -1}
			}
		}
	}
	sbase, dbase := filepath.Join(root, "s"), filepath.Join(root, "d")
	spath := filepath.Join(sbase, "it", "x", "a.wsp")
	dpath := filepath.Join(dbase, "it", "x", "a.wsp")
	(&BFile{L: l, Rings: src}).Write(spath)
	dl := l
	if k.Fault == "layout-mismatch" {
		dl = wsp.Layout{Archs: wsp.ParseLayout("1s:200s,100s:500s"), Method: 2}
		if k.Big {
			dl = wsp.Layout{Archs: wsp.ParseLayout("1s:20000s,100s:40100s"), Method: 2}
		}
		dst = EmptyRings(dl)
		dst[0][5] = wsp.Slot{T: uint32(now - now%1), V: 3}
		dst[0] = wsp.Ring{uint32(now) % dl.Archs[0].N: {T: uint32(now), V: 3}}
	}
	(&BFile{L: dl, Rings: dst}).Write(dpath)
	if k.Fault == "source-truncated" {
		os.Truncate(spath, 1000)
	}
	optMethod, optXFF := wt.Sum, float32(0)
	if k.Fault == "options-differ-from-destination-header" {
		optMethod, optXFF = wt.Average, 0.5 // same layout, other meta: nothing of the existing header may change
	}
	pre, _ := os.ReadFile(dpath)
	textOut := ""
	if k.Fault == "report-unwritable" {
		textOut = "/dev/full"
	}
	var cmd Executor
	if k.CLI == "copy" {
		cmd = &wcmd.CopyCommand{SrcBase: sbase, SrcRelPath: "it/x/a.wsp", DestBase: dbase, AggregationMethod: optMethod, XFilesFactor: optXFF, ArchiveInfoList: archList(l.Archs), ArchiveID: k.Arch, TextOut: textOut, CopyNaN: k.NaN}
	} else {
		cmd = &wcmd.SumCopyCommand{SrcBase: sbase, DestBase: dbase, ItemPattern: "it/*", SrcPattern: "*.wsp", DestRelPath: "a.wsp", AggregationMethod: optMethod, XFilesFactor: optXFF, ArchiveInfoList: archList(l.Archs), ArchiveID: k.Arch, TextOut: textOut}
	}
	err, pn := RunCommand(now, cmd)
	post, _ := os.ReadFile(dpath)
	ctx := fmt.Sprintf("%s fault=%s fill=1/%d archive=%d copy-nan=%v big=%v", k.CLI, k.Fault, k.Fill, k.Arch, k.NaN, k.Big)
	// whatever the outcome: the length and the header bytes of an existing file never change after its creation
	if hs := dl.HeaderSize(); len(post) != len(pre) || !bytes.Equal(post[:hs], pre[:hs]) {
		return "C05/cli/" + k.CLI + "/existing-destination-length-or-header-changed/" + k.Fault, fmt.Sprintf("%s: the existing destination had %d bytes and now has %d; header changed: %v", ctx, len(pre), len(post), len(post) < hs || !bytes.Equal(post[:hs], pre[:hs]))
	}
	switch classify(err, pn) {
	case "panic":
		return "", "" // C16's business
	case "nil":
		if k.Fault == "report-unwritable" && bytes.Equal(pre, post) {
			return "", "" // nothing had to be written: not a failing write
		}
		return "", "" // the command did not fail: the clause does not apply (C16 decides whether it should have)
	}
	if !bytes.Equal(pre, post) {
		at := 0
		for at < len(pre) && at < len(post) && pre[at] == post[at] {
			at++
		}
		return "C05/cli/" + k.CLI + "/destination-changed-by-failed-write/" + k.Fault, fmt.Sprintf("%s: the command failed (%v) but the existing destination changed (first difference at byte %d)", ctx, err, at)
	}
	return "", ""
}

// c05Generate: generate onto an existing file fails and must leave it byte-identical (also on the second attempt).
func c05Generate(c *fw.Ctx) {
	l := wsp.Layout{Archs: LayoutByTag("L5").Archs, Method: 2, XFF: 0}
	p := filepath.Join(c.Dir, "c05gen.wsp")
	r := EmptyRings(l)
	r[0][1] = wsp.Slot{T: 1700000001, V: 3}
	pre := (&BFile{L: l, Rings: r}).Bytes()
	os.WriteFile(p, pre, 0644)
	for attempt := 1; attempt <= 2; attempt++ {
		cmd := &wcmd.GenerateCommand{Dest: p, Perm: 0644, AggregationMethod: wt.Sum, ArchiveInfoList: archList(l.Archs), RandMax: 5, Fill: attempt == 1, TextOut: ""}
		err, pn := RunCommand(1700000003, cmd)
		post, rerr := os.ReadFile(p)
		c.Count("evaluations", 1)
		c.Count("cli_fault_cases", 1)
		if (err != nil || pn != "") && (rerr != nil || !bytes.Equal(pre, post)) {
			c.Violate("C05/cli/generate/existing-destination-changed-by-refused-write", fmt.Sprintf("generate onto an existing file failed (%v) on attempt %d but the file changed or disappeared (%v)", err, attempt, rerr), attempt, c05CLICase{CLI: "generate", Fault: "destination-exists"}, "")
			return
		}
	}
}

func c05CLI(c *fw.Ctx) {
	c05Generate(c)
	for _, cli := range []string{"copy", "sum-copy"} {
		for _, fault := range []string{"report-unwritable", "layout-mismatch", "source-truncated", "options-differ-from-destination-header", "none"} {
			for _, fill := range []int{1, 2} {
				for _, arch := range []int{-1, 0} {
					for _, nan := range []bool{false, true} {
						if cli == "sum-copy" && nan {
							continue
						}
						k := c05CLICase{CLI: cli, Fault: fault, Fill: fill, Arch: arch, NaN: nan}
						if nan && fill == 1 && arch == -1 || cli == "sum-copy" && fill == 1 && arch == -1 {
							// once per command and fault: 20400 slots, far more points than any plausible flush threshold
							kb := k
							kb.Big = true
							if sig, desc := c05CLIEval(c, kb); sig != "" {
								c.Violate(sig, desc, 50, kb, "")
							}
							c.Count("evaluations", 1)
							c.Count("cli_fault_cases", 1)
						}
						sig, desc := c05CLIEval(c, k)
						c.Count("evaluations", 1)
						c.Count("cli_fault_cases", 1)
						c.Count("distinct_nontrivial", 1)
						if sig != "" {
							c.Violate(sig, desc, fill+arch+2, k, "")
						}
					}
				}
			}
		}
	}
}

func init() {
	replayC05CLI = func(c *fw.Ctx, raw json.RawMessage) (bool, string) {
		var k c05CLICase
		if err := json.Unmarshal(raw, &k); err != nil || k.CLI == "" {
			return false, "not a CLI case"
		}
		if k.CLI == "generate" {
			c2 := &fw.Ctx{Prop: c.Prop, Tier: "quick", Of: 1, Dir: c.Dir, Deadline: c.Deadline, R: fw.NewResult()}
			c05Generate(c2)
			for _, v := range c2.R.Violations {
				return true, v.Desc
			}
			return false, "generate leaves an existing file alone"
		}
		sig, desc := c05CLIEval(c, k)
		return sig != "", desc
	}
}

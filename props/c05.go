package props

import (
	"bytes"
	"encoding/json"
	"fmt"
	"os"
	"path/filepath"
	"strings"

	wt "github.com/hnakamur/whispertool"

	"verif/fw"
	"verif/model"
	"verif/vrt"
	"verif/wsp"
)

// C05 - Sync persistence.  Every sequence of operations up to a fixed length
// over {writes to different pages, a page-crossing batch, a propagating
// write, read calls (raw dump + fetches), Sync, abandon (close without Sync + reopen), reopen (Sync + close +
// open)} is executed on one live handle.  After EVERY operation (each is a
// crash point) the file is read through an independent descriptor: it must
// hold exactly the bytes of the last successful Sync.  Right after each Sync
// the disk must equal the model and a second handle must read what the live
// handle reads.

type c05Case struct {
	Cfg  ACfg     `json:"cfg"`
	Init string   `json:"initial_bytes_hex"`
	Now  int64    `json:"now"`
	Seq  []string `json:"sequence"`
}

func init() {
	fw.Register(&fw.Prop{
		ID: "C05", Level: "fault_enumeration", Run: runC05, Replay: replayC05,
		Rule:        "a case is one operation sequence on one live handle; after every operation of every sequence the handle is treated as abandoned: the file is re-read through an independent descriptor and compared with the bytes of the last successful Sync (evaluations = crash points examined). Distinct by construction (all sequences over the alphabet up to the length bound); non-trivial = the sequence contains at least one write that is followed by a crash point before the next Sync.",
		Assumptions: []string{"a crash between Syncs is modelled as dropping the handle: what is on disk is what an independent descriptor reads (tmpfs; no page cache loss is modelled)", "torn writes inside Sync are outside the statement"},
		NeedsInstr:  []string{"whispertool:os.Getpagesize", "cmd:time.Now"},
	})
}

type c05Op struct {
	name string
	op   *AOp // nil for SYNC / ABANDON / REOPEN
}

func c05Alphabet(cfg ACfg) []c05Op {
	a := cfg.Archs
	k := len(a)
	ops := []c05Op{
		{"W(first-page)", &AOp{Kind: "W1", Arch: 0, Ages: []int64{0}, Vals: []float64{1}}},
		{"W(last-archive)", &AOp{Kind: "W1", Arch: k - 1, Ages: []int64{0}, Vals: []float64{1}}},
	}
	d := denseBatch(a[0], 0)
	ops = append(ops, c05Op{"WB(page-crossing)", &d})
	if k > 1 {
		ops = append(ops, c05Op{"W(propagating)", &AOp{Kind: "W1", Arch: 0, Ages: []int64{1}, Vals: []float64{1}}})
	}
	if cfg.Tag == "LP" {
		// the slot at file offset 8188 straddles the 8192 page boundary (see universe.go)
		ops[1] = c05Op{"W(page-straddling-slot)", &AOp{Kind: "W1", Arch: 0, Ages: []int64{20}, Vals: []float64{1}}}
	}
	// READ: every read call of the handle (raw dump of every archive, fetches): reading never changes the file
	ops = append(ops, c05Op{"READ", nil})
	ops = append(ops, c05Op{"SYNC", nil}, c05Op{"ABANDON", nil}, c05Op{"REOPEN", nil})
	return ops
}

func c05Apply(db *wt.Whisper, op AOp, now int64, v float64) (string, string) {
	var err error
	p, txt := fw.Guard(func() {
		switch op.Kind {
		case "W1":
			err = db.UpdatePointForArchive(op.Arch, wt.Timestamp(now-op.Ages[0]), wt.Value(v), wt.Timestamp(now))
		case "WB":
			pts := make([]wt.Point, len(op.Ages))
			for i := range pts {
				pts[i] = wt.Point{Time: wt.Timestamp(now - op.Ages[i]), Value: wt.Value(v + float64(i))}
			}
			err = db.UpdatePointsForArchive(pts, op.Arch, wt.Timestamp(now))
		}
	})
	if p {
		return "", txt
	}
	if err != nil {
		return err.Error(), ""
	}
	return "", ""
}

// c05Run executes one sequence and returns the first violation.
func c05Run(c *fw.Ctx, cfg ACfg, init []byte, now int64, seq []c05Op) (sig, desc string, crashPoints int64) {
	vrt.SetPagesize(cfg.Page)
	p := filepath.Join(c.Dir, "c05.wsp")
	l := cfg.Layout()
	var db *wt.Whisper
	var err error
	var synced []wsp.Ring
	if init == nil {
		// the handle comes from Create and has never been synced: the disk holds what Create left
		os.Remove(p)
		db, err = wt.Create(p, archList(cfg.Archs), wt.AggregationMethod(cfg.Method), cfg.XFF)
		if err != nil {
			return "", "", 0
		}
		init, _ = os.ReadFile(p)
		synced = EmptyRings(l)
	} else {
		os.WriteFile(p, init, 0644)
		db, err = wt.Open(p)
		if err != nil {
			return "", "", 0
		}
		f0, err := wsp.Parse(init)
		if err != nil {
			db.Close()
			return "", "", 0
		}
		synced, err = f0.Rings()
		if err != nil {
			db.Close()
			return "", "", 0
		}
	}
	defer func() { db.Close() }()
	created := len(init) > 0 && init[3] == 0 && init[15] == 0 // header not on disk yet
	hdrWant := l.EncodeHeader()
	live := wsp.CloneRings(synced)
	lastSynced := init
	names := func(n int) string {
		var s []string
		for _, o := range seq[:n+1] {
			s = append(s, o.name)
		}
		return strings.Join(s, " ; ")
	}
	for i, o := range seq {
		v := float64(i + 2)
		switch {
		case o.op != nil:
			op := *o.op
			e, pn := c05Apply(db, op, now, v)
			if pn != "" || e != "" {
				return "", "", crashPoints // panics / errors of updates are other properties' business
			}
			mop := op
			mop.Vals = make([]float64, len(op.Ages))
			for j := range mop.Vals {
				mop.Vals[j] = v + float64(j)
			}
			live = ApplyModel(l, live, now, mop).Rings
		case o.name == "READ":
			fw.Guard(func() {
				for id := range cfg.Archs {
					db.GetAllRawUnsortedPoints(id)
					db.FetchFromArchive(id, wt.Timestamp(now-cfg.Archs[id].Ret()), wt.Timestamp(now), wt.Timestamp(now))
				}
				db.FetchFromArchive(-1, wt.Timestamp(now-2), wt.Timestamp(now), wt.Timestamp(now))
			})
		case o.name == "SYNC" || o.name == "REOPEN":
			if err := db.Sync(); err != nil {
				return "", "", crashPoints
			}
			disk, _ := os.ReadFile(p)
			ctx := fmt.Sprintf("layout %s page=%d now=%d after [%s]", cfg.Spec, cfg.Page, now, names(i))
			if len(disk) != len(init) || int64(len(disk)) != l.FileSize() || !bytes.Equal(disk[:l.HeaderSize()], hdrWant) {
				return "C05/sync/length-or-header-changed", ctx + ": file length or header bytes changed", crashPoints
			}
			f, err := wsp.Parse(disk)
			var got []wsp.Ring
			if err == nil {
				got, err = f.Rings()
			}
			if err != nil {
				return "C05/sync/disk-unparsable", ctx + ": " + err.Error(), crashPoints
			}
			if ok, why := wsp.RingsEqual(live, got); !ok {
				return "C05/sync/disk-differs-from-handle-state", ctx + ": disk after Sync differs from the handle's state: " + why, crashPoints
			}
			// a second handle must read what the live handle reads
			db2, err := wt.Open(p, wt.WithoutFlock())
			if err != nil {
				return "C05/sync/second-handle-cannot-open", ctx + ": " + err.Error(), crashPoints
			}
			for id := -1; id < len(cfg.Archs); id++ {
				rmax := cfg.Archs[len(cfg.Archs)-1].Ret()
				for _, w := range []Window{{now - rmax - 1, now}, {0, now}, {now - cfg.Archs[0].Ret(), now}, {now - 1, now}} {
					a, b := RealFetch(db, id, w, now), RealFetch(db2, id, w, now)
					same, _ := valsEqual(a.Vals, b.Vals)
					if a.Err != b.Err || a.Nil != b.Nil || a.From != b.From || a.Until != b.Until || !same {
						db2.Close()
						return "C05/sync/second-handle-reads-differently", fmt.Sprintf("%s: FetchFromArchive(%d,%d,%d) live handle %v, second handle %v", ctx, id, w.From, w.Until, a.Vals, b.Vals), crashPoints
					}
					if !a.Err && !a.Nil {
						sh := model.FetchShape(cfg.Archs, id, w.From, w.Until, now)
						if ShapeMatches(sh, a) {
							want := model.Fetch(cfg.Archs, live, sh)
							if ok, j := valsEqual(want, a.Vals); !ok {
								db2.Close()
								return "C05/sync/handle-reads-differ-from-model", fmt.Sprintf("%s: FetchFromArchive(%d,%d,%d) value %d: %v, model %v", ctx, id, w.From, w.Until, j, a.Vals, want), crashPoints
							}
						}
					}
				}
			}
			db2.Close()
			synced = wsp.CloneRings(live)
			lastSynced = disk
			if o.name == "REOPEN" {
				db.Close()
				db, err = wt.Open(p)
				if err != nil {
					return "C05/reopen-failed", ctx + ": " + err.Error(), crashPoints
				}
			}
		case o.name == "ABANDON":
			db.Close()
			if created && bytes.Equal(lastSynced, init) {
				// nothing was ever synced: the file must still be exactly what Create left; there is no header to reopen
				disk, _ := os.ReadFile(p)
				crashPoints++
				if !bytes.Equal(disk, init) {
					return "C05/bytes-changed-outside-sync/after-ABANDON-of-created-handle", fmt.Sprintf("layout %s page=%d after [%s]: dropping a created, never synced handle changed the file", cfg.Spec, cfg.Page, names(i)), crashPoints
				}
				return "", "", crashPoints // (the deferred second Close of the same handle is harmless)
			}
			db, err = wt.Open(p)
			if err != nil {
				return "C05/reopen-failed", "after abandon: " + err.Error(), crashPoints
			}
			live = wsp.CloneRings(synced)
			// the reopened handle must read the last synced state
			for id := 0; id < len(cfg.Archs); id++ {
				w := Window{now - cfg.Archs[id].Ret(), now}
				a := RealFetch(db, id, w, now)
				sh := model.FetchShape(cfg.Archs, id, w.From, w.Until, now)
				if ShapeMatches(sh, a) && !a.Nil && !a.Err {
					want := model.Fetch(cfg.Archs, synced, sh)
					if ok, j := valsEqual(want, a.Vals); !ok {
						return "C05/abandon/reopened-handle-not-at-last-sync", fmt.Sprintf("layout %s page=%d after [%s]: archive %d value %d is %v, last synced state says %v", cfg.Spec, cfg.Page, names(i), id, j, a.Vals[j], want[j]), crashPoints
					}
				}
			}
		}
		// crash point: whatever the handle holds in memory, the disk must be the last synced bytes
		crashPoints++
		disk, _ := os.ReadFile(p)
		if !bytes.Equal(disk, lastSynced) {
			at := 0
			for at < len(disk) && at < len(lastSynced) && disk[at] == lastSynced[at] {
				at++
			}
			return "C05/bytes-changed-outside-sync/after-" + strings.SplitN(o.name, "(", 2)[0], fmt.Sprintf("layout %s page=%d now=%d after [%s]: file differs from the last synced bytes at offset %d (len %d vs %d)", cfg.Spec, cfg.Page, now, names(i), at, len(disk), len(lastSynced)), crashPoints
		}
	}
	return "", "", crashPoints
}

func runC05(c *fw.Ctx) {
	maxLen := 5
	if c.Thorough() {
		maxLen = 6
	}
	type pc struct {
		tag  string
		page int
	}
	pcs := []pc{{"L4", 16}, {"L4", 20}, {"L6", 16}, {"L6", 20}, {"L6", 64}, {"L9", 16}, {"L9", 20}, {"L9", 64}, {"L5", 4096}, {"LP", 4096}, {"LQ", 4096}}
	c.R.Bounds["sequences"] = fmt.Sprintf("all sequences of length <=%d over 7-8 operations, from a fresh file and from a file with one synced write", maxLen)
	c.R.Bounds["configs"] = fmt.Sprint(pcs)
	c.R.Bounds["cli"] = "copy and sum-copy x {report on /dev/full larger than the 4 KiB buffer, layout mismatch, truncated source} x 2 source fills x archive all/0 x copy-nan: destination bytes before = after whenever the command fails"
	if c.Shard == 0 {
		c05CLI(c)
	}
	for _, x := range pcs {
		ld := LayoutByTag(x.tag)
		cfg := ACfg{Tag: ld.Tag, Spec: ld.Spec, Archs: ld.Archs, Method: 2, XFF: 0, Page: x.page}
		now := Clocks(ld.Archs, false, []string{"mid"})[1]
		fresh, err := CreateFile(c.Dir, cfg)
		if err != nil {
			c.Inconclusive("Create failed: " + err.Error())
			continue
		}
		inits := [][]byte{fresh, nil} // nil: the sequence runs on a handle returned by Create (never synced)
		age := ld.Archs[0].Ret() - 1
		o := ApplyReal(c.Dir, cfg, AState{Bytes: fresh, Now: now}, AOp{Kind: "W1", Arch: 0, Ages: []int64{age}, Vals: []float64{9}})
		if o.Post != nil {
			inits = append(inits, o.Post)
		}
		if x.tag == "LP" {
			inits = inits[2:] // base interval fixed so that age 20 lands on the page-straddling slot
			maxLenLP := maxLen - 1
			_ = maxLenLP
		}
		alpha := c05Alphabet(cfg)
		ml := maxLen
		if x.tag == "LP" {
			ml = maxLen - 1
		}
		if x.tag == "LQ" { // 1500-point batches over 5 pages: short sequences
			ml = 3
		}
		var rec func(seq []c05Op)
		rec = func(seq []c05Op) {
			if len(seq) > 0 && c.Mine() && !c.Expired() {
				for ii, init := range inits {
					sig, desc, cp := c05Run(c, cfg, init, now, seq)
					c.Count("evaluations", cp)
					c.Count("sequences", 1)
					nontrivial := false
					for i, o := range seq {
						if o.op != nil && (i+1 == len(seq) || seq[i+1].name != "SYNC" && seq[i+1].name != "REOPEN") {
							nontrivial = true
						}
					}
					if nontrivial {
						c.Count("distinct_nontrivial", 1)
					}
					if sig != "" {
						var names []string
						for _, o := range seq {
							names = append(names, o.name)
						}
						ih := hexs(init)
						if init == nil {
							ih = "create"
						}
						c.Violate(sig, desc, len(seq)*100+len(init)/100+ii, c05Case{Cfg: cfg, Init: ih, Now: now, Seq: names}, "")
					}
					if len(seq) == ml {
						var names []string
						for _, o := range seq {
							names = append(names, o.name)
						}
						c.Sample(3, map[string]any{"layout": cfg.Spec, "page": cfg.Page, "sequence": names, "crash_points": cp})
					}
				}
			}
			if len(seq) == ml {
				return
			}
			for _, o := range alpha {
				rec(append(append([]c05Op{}, seq...), o))
			}
		}
		rec(nil)
	}
}

func replayC05(c *fw.Ctx, raw json.RawMessage) (bool, string) {
	var k c05Case
	if err := json.Unmarshal(raw, &k); err != nil {
		return false, err.Error()
	}
	if k.Seq == nil {
		return replayC05CLI(c, raw)
	}
	k.Cfg.Archs = wsp.ParseLayout(k.Cfg.Spec)
	alpha := c05Alphabet(k.Cfg)
	var seq []c05Op
	for _, n := range k.Seq {
		for _, o := range alpha {
			if o.name == n {
				seq = append(seq, o)
			}
		}
	}
	var init []byte
	if k.Init != "create" {
		init = unhex(k.Init)
	}
	sig, desc, _ := c05Run(c, k.Cfg, init, k.Now, seq)
	return sig != "", desc
}

var replayC05CLI = func(c *fw.Ctx, raw json.RawMessage) (bool, string) { return false, "not replayable" }

package props

import (
	"bytes"
	"encoding/json"
	"flag"
	"fmt"
	"io"
	"math"
	"os"
	"path/filepath"
	"strconv"
	"strings"

	wt "github.com/hnakamur/whispertool"
	wcmd "github.com/hnakamur/whispertool/cmd"

	"verif/fw"
	"verif/vrt"
	"verif/wsp"
)

// C20 - generate.  Engine B: layouts x maxima x fill x every clock phase x
// destination absent/existing; every math/rand Intn call of the command is an
// environment answer chosen by the harness from {n/2, 0, n-1}: all assignments
// when there are few draws, otherwise all assignments with at most two
// deviations from the default plus all assignments over {0, n-1} up to 12 draws.

type c20Case struct {
	Layout  string  `json:"layout"`
	Method  uint32  `json:"method"`
	XFF     float32 `json:"xff"`
	Max     int     `json:"max"`
	Fill    bool    `json:"fill"`
	Flags   bool    `json:"via_flags,omitempty"` // the command is built by Parse from command-line arguments
	Now     int64   `json:"now"`
	Exists  bool    `json:"destination_exists"`
	Answers []int   `json:"rand_answers"` // per Intn call: 0 = n/2, 1 = 0, 2 = n-1
}

func init() {
	fw.Register(&fw.Prop{
		ID: "C20", Level: "exploration", Run: runC20, Replay: replayC20,
		Rule:        "a case = (layout, method, xff, max, fill, generation instant, destination state, vector of answers to the command's Intn calls); distinct by construction; non-trivial = fill is on and the layout has a coarser slot fully covered by retained finer slots at that instant.",
		Assumptions: []string{"randomness is owned through the math/rand shim: every Intn(n) is answered from {n/2, 0, n-1}", "a coarser slot is 'fully covered' when every finer interval inside it lies within the finer archive's retention at the generation time"},
		NeedsInstr:  []string{"cmd:time.Now", "cmd:import math/rand"},
	})
}

type randScript struct {
	answers []int
	ns      []int
}

func (r *randScript) install() {
	vrt.RandIntn = func(n int) int {
		i := len(r.ns)
		r.ns = append(r.ns, n)
		a := 0
		if i < len(r.answers) {
			a = r.answers[i]
		}
		switch a {
		case 1:
			return 0
		case 2:
			return n - 1
		}
		return n / 2
	}
	vrt.RandBytes = func(b []byte) {
		for i := range b {
			b[i] = byte(i)
		}
	}
}

func uninstallRand() { vrt.RandIntn = nil; vrt.RandBytes = nil }

var c20Extra = map[string]LayoutDef{}

func c20Layout(tag string) LayoutDef {
	if ld, ok := c20Extra[tag]; ok {
		return ld
	}
	if strings.HasPrefix(tag, "S") {
		return LayoutDef{Tag: tag, Spec: tag[1:], Archs: wsp.ParseLayout(tag[1:])}
	}
	return LayoutByTag(tag)
}

func c20Eval(c *fw.Ctx, k c20Case) (sig, desc string, draws int, nontrivial bool) {
	ld := c20Layout(k.Layout)
	l := wsp.Layout{Archs: ld.Archs, Method: k.Method, XFF: k.XFF}
	p := filepath.Join(c.Dir, "gen.wsp")
	os.Remove(p)
	var pre []byte
	if k.Exists {
		pre = (&BFile{L: l, Rings: EmptyRings(l)}).Bytes()
		os.WriteFile(p, pre, 0644)
	}
	rs := &randScript{answers: k.Answers}
	rs.install()
	cmd := &wcmd.GenerateCommand{Dest: p, Perm: 0644, AggregationMethod: wt.AggregationMethod(k.Method), XFilesFactor: k.XFF, ArchiveInfoList: archList(l.Archs), RandMax: k.Max, Fill: k.Fill, TextOut: ""}
	if k.Flags {
		// the same request spelled as command-line arguments: the options must mean what the fields mean
		cmd = &wcmd.GenerateCommand{}
		fs := flag.NewFlagSet("generate", flag.ContinueOnError)
		fs.SetOutput(io.Discard)
		args := []string{"-dest", p, "-agg-method", methodName(k.Method), "-x-files-factor", strconv.FormatFloat(float64(k.XFF), 'g', -1, 32),
			"-retentions", wsp.LayoutString(l.Archs), "-max", strconv.Itoa(k.Max), "-fill=" + strconv.FormatBool(k.Fill), "-text-out", ""}
		if perr := cmd.Parse(fs, args); perr != nil {
			uninstallRand()
			return "C20/flags/rejected", fmt.Sprintf("generate %v: %v", args, perr), 0, false
		}
	}
	err, pn := RunCommand(k.Now, cmd)
	uninstallRand()
	draws = len(rs.ns)
	ctx := fmt.Sprintf("generate layout %s method=%s xff=%v max=%d fill=%v now=%d exists=%v answers=%v via-flags=%v", k.Layout, methodName(k.Method), k.XFF, k.Max, k.Fill, k.Now, k.Exists, k.Answers, k.Flags)
	cls := classify(err, pn)
	if cls == "panic" {
		return "C20/panic", ctx + ": " + firstLine(pn), draws, false
	}
	if k.Exists {
		post, _ := os.ReadFile(p)
		if cls == "nil" {
			return "C20/overwrote-existing", ctx + ": generate reported success on an existing destination", draws, false
		}
		if !bytes.Equal(pre, post) {
			return "C20/existing-destination-changed", ctx, draws, false
		}
		return "", "", draws, false
	}
	if cls != "nil" {
		return "C20/failed", fmt.Sprintf("%s: %v", ctx, err), draws, false
	}
	b, _ := os.ReadFile(p)
	f, perr := wsp.Parse(b)
	var rings []wsp.Ring
	if perr == nil {
		rings, perr = f.Rings()
	}
	if perr != nil {
		return "C20/unparsable", ctx + ": " + perr.Error(), draws, false
	}
	if !bytes.Equal(b[:l.HeaderSize()], l.EncodeHeader()) {
		return "C20/header", ctx + ": header differs from the requested layout/method/xff", draws, false
	}
	if !k.Fill {
		for i := range rings {
			if len(rings[i]) != 0 {
				return "C20/no-fill-not-empty", fmt.Sprintf("%s: archive %d holds %d slots", ctx, i, len(rings[i])), draws, false
			}
		}
		return "", "", draws, false
	}
	get := func(i int, t int64) (float64, bool) {
		a := l.Archs[i]
		s, ok := rings[i][uint32(t/int64(a.Step))%a.N]
		if !ok || int64(s.T) != t {
			return 0, false
		}
		return s.V, true
	}
	for i, a := range l.Archs {
		lim := float64(k.Max) * float64(a.Step) / float64(l.Archs[0].Step)
		times := SlotTimes(a, k.Now)
		for si, t := range times {
			v, ok := get(i, t)
			if !ok || math.IsNaN(v) {
				return "C20/slot-empty", fmt.Sprintf("%s: archive %d t=%d (slot %d of %d in the retention) is empty", ctx, i, t, si, len(times)), draws, nontrivial
			}
			if v < 0 || v > lim {
				return "C20/range", fmt.Sprintf("%s: archive %d t=%d holds %v, allowed [0, %v]", ctx, i, t, v, lim), draws, nontrivial
			}
			if i == 0 {
				continue
			}
			fa := l.Archs[i-1]
			ft := SlotTimes(fa, k.Now)
			sum, covered := 0.0, true
			for x := t; x < t+int64(a.Step); x += int64(fa.Step) {
				if x < ft[0] || x > ft[len(ft)-1] {
					covered = false
					break
				}
				fv, _ := get(i-1, x)
				sum += fv
			}
			if covered {
				nontrivial = true
				if v != sum {
					pos := "inner"
					if si == len(times)-1 {
						pos = "newest-slot"
					}
					return "C20/coarser-not-sum-of-finer/" + pos, fmt.Sprintf("%s: archive %d t=%d holds %v but its %d finer slots (all retained) sum to %v", ctx, i, t, v, a.Step/fa.Step, sum), draws, nontrivial
				}
			}
		}
	}
	return "", "", draws, nontrivial
}

// answerVectors enumerates the environment answers for d draws.
func answerVectors(d int, full3 int, full2 int) [][]int {
	var out [][]int
	seen := map[string]bool{}
	add := func(v []int) {
		k := fmt.Sprint(v)
		if !seen[k] {
			seen[k] = true
			out = append(out, append([]int{}, v...))
		}
	}
	if d <= full3 {
		for _, v := range allCodes(d, 3) {
			add(v)
		}
		return out
	}
	base := make([]int, d)
	add(base)
	for i := 0; i < d; i++ {
		for a := 1; a <= 2; a++ {
			v := append([]int{}, base...)
			v[i] = a
			add(v)
			for j := i + 1; j < d; j++ {
				for b := 1; b <= 2; b++ {
					w := append([]int{}, v...)
					w[j] = b
					add(w)
				}
			}
		}
	}
	if d <= full2 {
		for _, v := range allCodes(d, 2) {
			w := make([]int, d)
			for i := range v {
				w[i] = v[i] + 1
			}
			add(w)
		}
	}
	return out
}

func runC20(c *fw.Ctx) {
	tags := []string{"L3", "L4", "L5", "L6", "L7", "L8", "L9", "L10"}
	maxes := []int{0, 1, 7, 100}
	extra := map[string]LayoutDef{}
	n2 := 0
	for _, ld := range AllSmallLayouts() { // further small multi-level layouts (every 3rd two-level; thorough: + every 40th three-level)
		if len(ld.Archs) == 2 {
			n2++
			if n2%3 == 1 || c.Thorough() {
				extra[ld.Tag] = ld
				tags = append(tags, ld.Tag)
			}
		} else if len(ld.Archs) == 3 && c.Thorough() {
			n2++
			if n2%20 == 1 {
				extra[ld.Tag] = ld
				tags = append(tags, ld.Tag)
			}
		}
	}
	c20Extra = extra
	if c.Shard == 0 {
		c20Big(c)
	}
	c.R.Bounds["grid"] = "layouts L3-L10 + every 3rd small two-level layout x max {0,1,7,100} x fill on/off x every phase in [0, coarsest step) in two eras (today, after 2038) x destination absent/existing x 3 (method, xff) pairs; rand answers: all 3^d for d<=6 draws, else <=2 deviations + all 2^d over {0,n-1} for d<=12"
	for ti, tag := range tags {
		ld := c20Layout(tag)
		isExtra := ti >= 8
		sl := int64(ld.Archs[len(ld.Archs)-1].Step)
		for ph := int64(0); ph < 2*sl; ph++ {
			t0 := EraMid - EraMid%Period(ld.Archs)
			if ph >= sl { // the same phases after 2038 (times beyond MaxInt32)
				t0 = EraHigh - EraHigh%Period(ld.Archs)
			}
			now := t0 + ph%sl
			for mi, mx := range maxes {
				for _, fill := range []bool{true, false} {
					if !c.Mine() {
						continue
					}
					if c.Expired() {
						return
					}
					m := [][2]float32{{2, 0}, {1, 0.5}, {3, 1}}[(mi+int(ph))%3]
					base := c20Case{Layout: tag, Method: uint32(m[0]), XFF: m[1], Max: mx, Fill: fill, Now: now}
					one := func(k c20Case) int {
						sig, desc, d, nt := c20Eval(c, k)
						c.Count("evaluations", 1)
						if nt {
							c.Count("distinct_nontrivial", 1)
						}
						if sig != "" {
							dev := 0
							for _, a := range k.Answers {
								if a != 0 {
									dev++
								}
							}
							c.Violate(sig, desc, dev*10+len(ld.Archs)*100+int(ph), k, "")
						}
						if nt && len(k.Answers) > 0 {
							c.Sample(3, k)
						}
						return d
					}
					ex := base
					ex.Exists = true
					one(ex)
					fl := base
					fl.Flags = true
					one(fl)
					d := one(base)
					c.Outcome(fmt.Sprintf("draws=%d", d))
					if !fill || mx == 0 {
						continue
					}
					f3, f2 := 6, 12
					if c.Thorough() {
						f3, f2 = 8, 16
					}
					if isExtra {
						f3, f2 = 3, 6
						if c.Thorough() {
							f3, f2 = 4, 8
						}
					}
					for _, av := range answerVectors(d, f3, f2) {
						k := base
						k.Answers = av
						one(k)
					}
				}
			}
		}
	}
}

// c20Big: an archive of more than 2048 slots (several pages, more points than any plausible write batch)
func c20Big(c *fw.Ctx) {
	tag := "S1s:2100s,300s:6000s"
	ld := c20Layout(tag)
	for _, ph := range []int64{0, 7, 299} {
		for _, ans := range [][]int{nil, {1, 2, 1}} {
			k := c20Case{Layout: tag, Method: 2, XFF: 0, Max: 7, Fill: true, Now: EraMid - EraMid%Period(ld.Archs) + ph, Answers: ans}
			sig, desc, _, nt := c20Eval(c, k)
			c.Count("evaluations", 1)
			if nt {
				c.Count("distinct_nontrivial", 1)
			}
			if sig != "" {
				c.Violate(sig, desc, 5000+int(ph), k, "")
			}
		}
	}
}

func replayC20(c *fw.Ctx, raw json.RawMessage) (bool, string) {
	var k c20Case
	if err := json.Unmarshal(raw, &k); err != nil {
		return false, err.Error()
	}
	sig, desc, _, _ := c20Eval(c, k)
	return sig != "", desc
}

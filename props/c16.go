package props

import (
	"encoding/json"
	"flag"
	"fmt"
	"io"
	"math"
	"os"
	"path/filepath"
	"strings"

	wt "github.com/hnakamur/whispertool"
	wcmd "github.com/hnakamur/whispertool/cmd"

	"verif/fw"
	"verif/wsp"
)

// C16 - commands fail loudly.  Engine B: the complete product of the eight
// subcommands x archive selection x window x text-out destination x
// environment fault.  Every combination is driven through Parse(args) and
// Execute().  Outcome classes: panic (always a violation), nil (the command's
// effect oracle must hold, and in fault rows where the work cannot have been
// done nil is a violation outright), diff-found, error.

type c16Case struct {
	World   int    `json:"world"`
	Cmd     string `json:"cmd"`
	Archive int    `json:"archive"`
	Window  string `json:"window"`
	TextOut string `json:"text_out"`
	Env     string `json:"env"`
}

type parser interface {
	Parse(fs *flag.FlagSet, args []string) error
	Execute() error
}

func init() {
	fw.Register(&fw.Prop{
		ID: "C16", Level: "fault_enumeration", Run: runC16, Replay: replayC16,
		Rule:        "a case = (world, subcommand, archive selection, window, text-out destination, environment fault); the product is enumerated completely; non-trivial = the case is a fault row (text-out unopenable or unwritable, input missing/truncated/of another layout, destination not creatable, archive id out of range, inverted window) or a success whose effect oracle was evaluated.",
		Assumptions: []string{"checks run as root: unwritable destinations are modelled by a base directory under a regular file (ENOTDIR)", "a missing side is a reported difference for diff and sum-diff, an error for every other command"},
		NeedsInstr:  []string{"cmd:time.Now"},
	})
}

var c16Cmds = []string{"view", "view-raw", "diff", "copy", "sum", "sum-copy", "sum-diff", "generate"}
var c16Windows = []string{"default", "past", "future", "beyond-archive0", "beyond-all", "degenerate", "inverted"}
var c16TextOuts = []string{"none", "stdout", "file", "missing-dir", "directory", "dev-full", "stdout-full"}
var c16Envs = []string{"ok", "src-missing", "src-truncated", "src-other-layout", "src-other-layout-points", "sources-differ-in-points", "src-corrupt-last-archive", "src-remote-missing", "dest-other-layout-points", "dest-unwritable", "dest-missing", "dest-corrupt-method", "generate-dest-exists", "generate-no-fill"}

type c16World struct {
	root       string
	l          wsp.Layout
	now        int64
	src, dst   []wsp.Ring
	items      [][]wsp.Ring
	sum        []wsp.Ring
	srcCode    []int
	dstCode    []int
	itemCodes  [][]int
	sumDstCode []int
}

func c16Build(dir string, world int) *c16World {
	ld := LayoutByTag("L4")
	l := wsp.Layout{Archs: ld.Archs, Method: 2, XFF: 0}
	w := &c16World{root: filepath.Join(dir, "c16"), l: l, now: Clocks(ld.Archs, false, []string{"mid"})[1]}
	if world == 0 {
		w.srcCode, w.dstCode = []int{1, 2, 0, 1, 2}, []int{0, 1, 1, 0, 0}
		w.itemCodes = [][]int{{1, 0, 2, 1, 0}, {0, 1, 1, 2, 0}}
		w.sumDstCode = []int{1, 1, 0, 0, 1}
	} else if world == 1 {
		w.srcCode, w.dstCode = []int{2, 2, 1, 1, 2}, []int{2, 2, 1, 1, 2} // destination equals source
		w.itemCodes = [][]int{{1, 1, 1, 1, 1}, {2, 2, 2, 2, 2}}
		w.sumDstCode = []int{0, 0, 0, 0, 0}
	} else {
		// thorough: further contents derived from the world number
		code := func(seed int) []int {
			out := make([]int, 5)
			for i := range out {
				out[i] = (seed/(i+1) + i*seed) % 3
			}
			return out
		}
		w.srcCode, w.dstCode = code(world*7+1), code(world*11+2)
		w.itemCodes = [][]int{code(world*5 + 3), code(world*13 + 4)}
		w.sumDstCode = []int{world % 2, 0, (world / 2) % 2, 0, 1}
		if world == 5 {
			w.srcCode = []int{0, 0, 0, 0, 0} // a source without any value
		}
	}
	return w
}

func (w *c16World) write() {
	os.RemoveAll(w.root)
	l := w.l
	w.src = contentByCode(l, w.now, c08SrcChoices, w.srcCode)
	w.dst = contentByCode(l, w.now, c08SrcChoices, w.dstCode)
	(&BFile{L: l, Rings: w.src}).Write(filepath.Join(w.root, "s", "a.wsp"))
	(&BFile{L: l, Rings: w.dst}).Write(filepath.Join(w.root, "d", "a.wsp"))
	w.items = nil
	for f, code := range w.itemCodes {
		r := contentByCode(l, w.now, c10Choices(f, 3), code)
		(&BFile{L: l, Rings: r}).Write(filepath.Join(w.root, "s", "it", "x", []string{"a.wsp", "b.wsp"}[f]))
		w.items = append(w.items, r)
	}
	w.sum = contentByCode(l, w.now, c08DstChoices, w.sumDstCode)
	(&BFile{L: l, Rings: w.sum}).Write(filepath.Join(w.root, "d", "it", "x", "sum.wsp"))
	os.WriteFile(filepath.Join(w.root, "plainfile"), []byte("x"), 0644)
	os.MkdirAll(filepath.Join(w.root, "adir"), 0755)
}

func (w *c16World) window(name string) (from, until int64) {
	now := w.now
	r0, rmax := w.l.Archs[0].Ret(), w.l.MaxRet()
	switch name {
	case "past":
		return now - 3, now - 1
	case "future":
		return now + 5, now + 9
	case "beyond-archive0":
		return now - r0 - 3, now - r0 - 1
	case "beyond-all":
		return now - rmax - 9, now - rmax - 2
	case "degenerate":
		return now - 1, now - 1
	case "inverted":
		return now - 1, now - 3
	}
	return 0, 0
}

func c16Eval(c *fw.Ctx, k c16Case) (sig, desc string, nontrivial bool, outcome string) {
	w := c16Build(c.Dir, k.World)
	w.write()
	l := w.l
	sbase, dbase := filepath.Join(w.root, "s"), filepath.Join(w.root, "d")
	genDest := filepath.Join(w.root, "gen", "new.wsp")
	os.MkdirAll(filepath.Dir(genDest), 0755)
	// environment
	srcBroken, destBroken, destMissing, destCorrupt := false, false, false, false
	other := LayoutByTag("L5")
	otherFile := &BFile{L: wsp.Layout{Archs: other.Archs, Method: 2}, Rings: EmptyRings(wsp.Layout{Archs: other.Archs})}
	srcFiles := []string{filepath.Join(sbase, "a.wsp"), filepath.Join(sbase, "it", "x", "a.wsp"), filepath.Join(sbase, "it", "x", "b.wsp")}
	srcRel, itemPat := "a.wsp", "it/*"
	switch k.Env {
	case "src-remote-missing":
		// the source is a server that has nothing under the asked names (no file, no item directory)
		url, _ := c12Server(c)
		if url == "" {
			return "", "", false, "no-server"
		}
		sbase, srcRel, itemPat = url, "c16-none/a.wsp", "c16-none/it/*"
		srcBroken = true
	case "src-missing":
		for _, f := range srcFiles {
			os.Remove(f)
		}
		srcBroken = true
	case "src-truncated":
		for _, f := range srcFiles {
			os.Truncate(f, 21)
		}
		srcBroken = true
	case "src-other-layout", "src-other-layout-points":
		if k.Env == "src-other-layout-points" { // same steps and archive count, one more point in the last archive
			oa := append([]wsp.Arch{}, l.Archs...)
			oa[len(oa)-1].N++
			otherFile = &BFile{L: wsp.Layout{Archs: oa, Method: 2}, Rings: EmptyRings(wsp.Layout{Archs: oa})}
		}
		for _, f := range srcFiles {
			otherFile.Write(f)
		}
	case "sources-differ-in-points":
		// only ONE of the two files of the item has one more point in its last archive
		oa := append([]wsp.Arch{}, l.Archs...)
		oa[len(oa)-1].N++
		(&BFile{L: wsp.Layout{Archs: oa, Method: 2}, Rings: EmptyRings(wsp.Layout{Archs: oa})}).Write(srcFiles[2])
	case "src-corrupt-last-archive":
		// the last archive info of every source carries an offset that points into the previous archive's region
		for _, f := range srcFiles {
			b, _ := os.ReadFile(f)
			o := 16 + 12*(len(l.Archs)-1)
			b[o+3] -= 12
			os.WriteFile(f, b, 0644)
		}
		srcBroken = true
	case "dest-other-layout-points":
		// the EXISTING destination differs from the source (and from the -retentions option) only in the last archive's point count
		oa := append([]wsp.Arch{}, l.Archs...)
		oa[len(oa)-1].N++
		df := &BFile{L: wsp.Layout{Archs: oa, Method: 2}, Rings: EmptyRings(wsp.Layout{Archs: oa})}
		df.Write(filepath.Join(dbase, "a.wsp"))
		df.Write(filepath.Join(dbase, "it", "x", "sum.wsp"))
	case "dest-missing":
		// the destination does not exist yet: copy and sum-copy create it (also when there turns out to be nothing to write)
		os.Remove(filepath.Join(dbase, "a.wsp"))
		os.Remove(filepath.Join(dbase, "it", "x", "sum.wsp"))
		destMissing = true
	case "dest-corrupt-method":
		// the existing destination's aggregation method field holds a number that names no method
		for _, f := range []string{filepath.Join(dbase, "a.wsp"), filepath.Join(dbase, "it", "x", "sum.wsp")} {
			b, _ := os.ReadFile(f)
			b[0], b[1], b[2], b[3] = 0, 0, 0, byte(7+k.World%2)
			os.WriteFile(f, b, 0644)
		}
		destCorrupt = true
	case "dest-unwritable":
		dbase = filepath.Join(w.root, "plainfile", "sub")
		genDest = filepath.Join(w.root, "plainfile", "new.wsp")
		destBroken = true
	case "generate-dest-exists":
		(&BFile{L: l, Rings: EmptyRings(l)}).Write(genDest)
	}
	usesSrc := k.Cmd != "generate"
	usesDest := k.Cmd == "diff" || k.Cmd == "copy" || k.Cmd == "sum-copy" || k.Cmd == "sum-diff" || k.Cmd == "generate"
	from, until := w.window(k.Window)
	textOut := ""
	outFile := filepath.Join(w.root, "out.txt")
	switch k.TextOut {
	case "stdout", "stdout-full":
		textOut = "-"
	case "file":
		textOut = outFile
	case "missing-dir":
		textOut = filepath.Join(w.root, "no", "such", "dir", "out.txt")
	case "directory":
		textOut = filepath.Join(w.root, "adir")
	case "dev-full":
		textOut = "/dev/full"
	}
	args := []string{"-text-out", textOut}
	if k.Cmd != "generate" {
		args = append(args, "-archive", fmt.Sprint(k.Archive))
		if from != 0 {
			args = append(args, "-from", FormatUTC(from))
		}
		if until != 0 {
			args = append(args, "-until", FormatUTC(until))
		}
	}
	var cmd parser
	switch k.Cmd {
	case "view":
		cmd = &wcmd.ViewCommand{}
		args = append(args, "-src-base", sbase, "-src", srcRel)
	case "view-raw":
		cmd = &wcmd.ViewRawCommand{}
		args = append(args, "-src-base", sbase, "-src", srcRel)
	case "diff":
		cmd = &wcmd.DiffCommand{}
		args = append(args, "-src-base", sbase, "-src", srcRel, "-dest-base", dbase)
	case "copy":
		cmd = &wcmd.CopyCommand{}
		args = append(args, "-src-base", sbase, "-src", srcRel, "-dest-base", dbase, "-agg-method", "sum", "-x-files-factor", "0", "-retentions", "1s:2s,2s:6s")
	case "sum":
		cmd = &wcmd.SumCommand{}
		args = append(args, "-src-base", sbase, "-item", itemPat, "-src", "*.wsp")
	case "sum-copy":
		cmd = &wcmd.SumCopyCommand{}
		args = append(args, "-src-base", sbase, "-item", itemPat, "-src", "*.wsp", "-dest-base", dbase, "-dest", "sum.wsp", "-agg-method", "sum", "-x-files-factor", "0", "-retentions", "1s:2s,2s:6s")
	case "sum-diff":
		cmd = &wcmd.SumDiffCommand{}
		args = append(args, "-src-base", sbase, "-item", itemPat, "-src", "*.wsp", "-dest-base", dbase, "-dest", "sum.wsp")
	case "generate":
		cmd = &wcmd.GenerateCommand{}
		args = append(args, "-dest", genDest, "-agg-method", "sum", "-retentions", "1s:2s,2s:6s", "-max", "5")
		if k.Env == "generate-no-fill" { // only the (empty) file is asked for: it must be there, header included
			args = append(args, "-fill=false")
		}
	}
	fs := flag.NewFlagSet(k.Cmd, flag.ContinueOnError)
	fs.SetOutput(io.Discard)
	ctx := fmt.Sprintf("%s world=%d archive=%d window=%s text-out=%s env=%s", k.Cmd, k.World, k.Archive, k.Window, k.TextOut, k.Env)
	if perr := cmd.Parse(fs, args); perr != nil {
		if k.Window == "inverted" && k.Cmd != "sum-copy" && k.Cmd != "sum-diff" && k.Cmd != "generate" {
			return "", "", true, "rejected-by-parse"
		}
		return "C16/" + k.Cmd + "/parse-rejected-valid-arguments", ctx + ": " + perr.Error(), false, "parse-error"
	}
	var err error
	var pn, stdout string
	if k.TextOut == "stdout-full" {
		// the standard output itself cannot be written (a full device, a closed pipe)
		if full, ferr := os.OpenFile("/dev/full", os.O_WRONLY, 0); ferr == nil {
			old := os.Stdout
			os.Stdout = full
			err, pn = RunCommand(w.now, cmd)
			os.Stdout = old
			full.Close()
		} else {
			return "", "", false, "no-dev-full"
		}
	} else {
		stdout = WithStdout(c.Dir, func() { err, pn = RunCommand(w.now, cmd) })
	}
	text := ""
	if k.TextOut == "file" {
		text = readAndRemove(outFile)
	} else if k.TextOut == "stdout" {
		text = stdout
	}
	cls := classify(err, pn)
	outcome = cls
	fault := ""
	if pn != "" {
		return "C16/" + k.Cmd + "/panic", ctx + ": " + firstLine(pn), true, outcome
	}
	if (k.Cmd == "diff" || k.Cmd == "sum-diff") && destMissing && fault == "" && k.TextOut != "missing-dir" && k.TextOut != "directory" && k.TextOut != "dev-full" && k.TextOut != "stdout-full" {
		// a missing destination is a reported difference, or (with a second fault in the same row) an error - never success
		if cls == "nil" {
			return "C16/" + k.Cmd + "/silent-success/destination-missing", ctx + ": reported success although the destination does not exist", true, outcome
		}
		return "", "", true, outcome
	}
	// rows in which the work cannot have been done
	switch {
	case k.TextOut == "missing-dir" || k.TextOut == "directory":
		fault = "text-out-cannot-be-opened"
	case k.TextOut == "dev-full" || k.TextOut == "stdout-full":
		fault = "text-out-cannot-be-written"
	case usesSrc && srcBroken:
		fault = "input-" + strings.TrimPrefix(k.Env, "src-")
		if k.Env == "src-corrupt-last-archive" {
			fault = "input-corrupt"
		}
		if k.Env == "src-remote-missing" {
			fault = "input-missing" // judged like a missing local source
		}
	case (k.Env == "src-other-layout" || k.Env == "src-other-layout-points") && (k.Cmd == "diff" || k.Cmd == "copy" || k.Cmd == "sum-copy" || k.Cmd == "sum-diff"):
		fault = "layout-mismatch"
	case k.Env == "sources-differ-in-points" && (k.Cmd == "sum" || k.Cmd == "sum-copy" || k.Cmd == "sum-diff"):
		fault = "layout-mismatch"
	case k.Env == "dest-other-layout-points" && (k.Cmd == "diff" || k.Cmd == "copy" || k.Cmd == "sum-copy" || k.Cmd == "sum-diff"):
		fault = "layout-mismatch"
	case usesDest && destCorrupt && k.Cmd != "generate":
		fault = "destination-corrupt"
	case usesDest && destBroken && k.Cmd != "diff" && k.Cmd != "sum-diff":
		fault = "destination-not-creatable"
	case k.Cmd == "generate" && k.Env == "generate-dest-exists":
		fault = "destination-exists"
	case k.Cmd != "generate" && (k.Archive < -1 || k.Archive >= len(l.Archs)):
		fault = "archive-out-of-range"
	case k.Cmd != "generate" && k.Window == "inverted":
		fault = "inverted-window"
	}
	if fault != "" {
		nontrivial = true
		if cls == "nil" {
			return "C16/" + k.Cmd + "/silent-success/" + fault, ctx + ": reported success although " + fault, true, outcome
		}
		// a missing side counts as a reported difference for diff and sum-diff; everything else must be a plain error
		if cls == "diff-found" && !(strings.HasPrefix(fault, "input-missing") && (k.Cmd == "diff" || k.Cmd == "sum-diff")) && fault != "text-out-cannot-be-written" {
			return "C16/" + k.Cmd + "/diff-verdict-instead-of-error/" + fault, ctx, true, outcome
		}
		return "", "", true, outcome
	}
	if (k.Cmd == "diff" || k.Cmd == "sum-diff") && (destBroken || destMissing) {
		// destination side missing: a reported difference
		nontrivial = true
		if cls == "nil" {
			return "C16/" + k.Cmd + "/silent-success/destination-missing", ctx + ": reported success although the destination does not exist", true, outcome
		}
		return "", "", true, outcome
	}
	if cls == "error" {
		return "", "", false, outcome // an error is always "loud"; whether it is justified is other properties' business
	}
	// success (or diff-found): the effect must be there
	nontrivial = true
	u := until
	if u == 0 {
		u = w.now
	}
	wantsText := k.TextOut == "file" || k.TextOut == "stdout"
	_, pts, _, bad := SplitOutput(text)
	if wantsText && bad != "" {
		return "C16/" + k.Cmd + "/effect/output-unparsable", ctx + ": " + bad, true, outcome
	}
	readDest := func(p string) []wsp.Ring {
		b, err := os.ReadFile(p)
		if err != nil {
			return nil
		}
		f, err := wsp.Parse(b)
		if err != nil {
			return nil
		}
		r, err := f.Rings()
		if err != nil {
			return nil
		}
		return r
	}
	equalInWindow := func(want []*ExpSeries, got []wsp.Ring, nanToo bool) string {
		have, _ := ExpRead(l, got, k.Archive, from, u, w.now)
		for i := range want {
			if want[i] == nil {
				continue
			}
			for j, v := range want[i].Vals {
				if (nanToo || !math.IsNaN(v)) && !valEqual(v, have[i].Vals[j]) {
					return fmt.Sprintf("archive %d value %d is %v, want %v", i, j, have[i].Vals[j], v)
				}
			}
		}
		return ""
	}
	srcL, srcR := l, w.src
	if k.Env == "src-other-layout" || k.Env == "src-other-layout-points" {
		srcL, srcR = otherFile.L, otherFile.Rings
	}
	switch k.Cmd {
	case "view":
		if wantsText {
			exp, _ := ExpRead(srcL, srcR, k.Archive, from, u, w.now)
			if msg := comparePoints(pts, expPoints(exp)); msg != "" {
				return "C16/view/effect/output", ctx + ": " + msg, true, outcome
			}
			if !strings.Contains(text, "aggMethod:") {
				return "C16/view/effect/no-header", ctx, true, outcome
			}
		}
	case "view-raw":
		if wantsText && !strings.Contains(text, "aggMethod:") {
			return "C16/view-raw/effect/no-output", ctx, true, outcome
		}
	case "sum":
		if wantsText {
			files := w.items
			if k.Env == "src-other-layout" || k.Env == "src-other-layout-points" {
				files = [][]wsp.Ring{otherFile.Rings, otherFile.Rings}
			}
			exp, _ := ExpSum(srcL, files, k.Archive, from, u, w.now)
			if msg := comparePoints(pts, expPoints(exp)); msg != "" {
				return "C16/sum/effect/output", ctx + ": " + msg, true, outcome
			}
		}
	case "diff":
		d, _ := expDiff(l, w.src, w.dst, k.Archive, from, u, w.now)
		if (cls == "nil") != (len(d) == 0) {
			return "C16/diff/effect/verdict", fmt.Sprintf("%s: verdict %s but the difference set has %d slots", ctx, cls, len(d)), true, outcome
		}
		if recs, _, _, _ := parseDiffLines(text); wantsText && len(recs) != len(d) {
			return "C16/diff/effect/output", fmt.Sprintf("%s: %d slots listed, %d differ", ctx, len(recs), len(d)), true, outcome
		}
	case "copy":
		got := readDest(filepath.Join(dbase, "a.wsp"))
		if got == nil {
			return "C16/copy/effect/no-destination", ctx, true, outcome
		}
		exp, _ := ExpRead(l, w.src, k.Archive, from, u, w.now)
		if msg := equalInWindow(exp, got, false); msg != "" {
			return "C16/copy/effect/destination", ctx + ": " + msg, true, outcome
		}
	case "sum-copy":
		got := readDest(filepath.Join(dbase, "it", "x", "sum.wsp"))
		if got == nil {
			return "C16/sum-copy/effect/no-destination", ctx, true, outcome
		}
		exp, _ := ExpSum(l, w.items, k.Archive, from, u, w.now)
		if msg := equalInWindow(exp, got, true); msg != "" {
			return "C16/sum-copy/effect/destination", ctx + ": " + msg, true, outcome
		}
	case "sum-diff":
		exp, _ := ExpSum(l, w.items, k.Archive, from, u, w.now)
		clean := equalInWindow(exp, w.sum, true) == ""
		if (cls == "nil") != clean {
			return "C16/sum-diff/effect/verdict", fmt.Sprintf("%s: verdict %s but destination equals the sum: %v", ctx, cls, clean), true, outcome
		}
	case "generate":
		b, rerr := os.ReadFile(genDest)
		if rerr != nil || len(b) < l.HeaderSize() || string(b[:l.HeaderSize()]) != string(l.EncodeHeader()) {
			return "C16/generate/effect/no-file", ctx, true, outcome
		}
		if wantsText && !strings.Contains(text, "aggMethod:") {
			return "C16/generate/effect/no-output", ctx, true, outcome
		}
	}
	if wantsText && text == "" {
		return "C16/" + k.Cmd + "/effect/no-output", ctx + ": success but nothing was written to the requested text output", true, outcome
	}
	return "", "", true, outcome
}

// ---- several items, one of which cannot be processed: the run as a whole must not report success, wherever the
// failing item stands in the order of processing; without a fault every item's work is done.

type c16MultiCase struct {
	Kind  string `json:"kind"` // multi-item
	Cmd   string `json:"cmd"`
	Fault string `json:"fault"` // none | truncated | corrupt-method | files-differ-in-layout
	Pos   int    `json:"failing_item"`
}

func c16MultiEval(c *fw.Ctx, k c16MultiCase) (sig, desc string) {
	ld := LayoutByTag("L4")
	l := wsp.Layout{Archs: ld.Archs, Method: 2, XFF: 0}
	now := Clocks(ld.Archs, false, []string{"mid"})[1]
	root := filepath.Join(c.Dir, "c16multi")
	os.RemoveAll(root)
	sbase, dbase := filepath.Join(root, "s"), filepath.Join(root, "d")
	items := []string{"x", "y", "z"}
	sums := map[string][]*ExpSeries{}
	for ii, it := range items {
		var files [][]wsp.Ring
		for f, n := range []string{"a.wsp", "b.wsp"} {
			r := contentByCode(l, now, c10Choices(f, 3), []int{(ii + f) % 3, 1, (ii + 1) % 3, 2, 1})
			(&BFile{L: l, Rings: r}).Write(filepath.Join(sbase, "it", it, n))
			files = append(files, r)
		}
		sums[it], _ = ExpSum(l, files, -1, 0, now, now)
		dst := EmptyRings(l)
		if k.Cmd == "sum-diff" { // the destination already holds the sum: only the fault can keep the run from being clean
			for i, e := range sums[it] {
				for j, v := range e.Vals {
					if !math.IsNaN(v) {
						t := e.Shape.From + int64(j)*e.Shape.Step
						dst[i][uint32(t/e.Shape.Step)%l.Archs[i].N] = wsp.Slot{T: uint32(t), V: v}
					}
				}
			}
		}
		(&BFile{L: l, Rings: dst}).Write(filepath.Join(dbase, "it", it, "sum.wsp"))
	}
	if k.Fault != "none" {
		a := filepath.Join(sbase, "it", items[k.Pos], "a.wsp")
		switch k.Fault {
		case "truncated":
			os.Truncate(a, 21)
		case "corrupt-method":
			b, _ := os.ReadFile(a)
			b[3] = 99
			os.WriteFile(a, b, 0644)
		case "files-differ-in-layout":
			o := LayoutByTag("L5")
			(&BFile{L: wsp.Layout{Archs: o.Archs, Method: 2}, Rings: EmptyRings(wsp.Layout{Archs: o.Archs})}).Write(a)
		}
	}
	var cmd Executor
	switch k.Cmd {
	case "sum":
		cmd = &wcmd.SumCommand{SrcBase: sbase, ItemPattern: "it/*", SrcPattern: "*.wsp", ArchiveID: -1, TextOut: ""}
	case "sum-copy":
		cmd = &wcmd.SumCopyCommand{SrcBase: sbase, DestBase: dbase, ItemPattern: "it/*", SrcPattern: "*.wsp", DestRelPath: "sum.wsp", AggregationMethod: wt.Sum, ArchiveInfoList: archList(l.Archs), ArchiveID: -1, TextOut: ""}
	case "sum-diff":
		cmd = &wcmd.SumDiffCommand{SrcBase: sbase, DestBase: dbase, ItemPattern: "it/*", SrcPattern: "*.wsp", DestRelPath: "sum.wsp", ArchiveID: -1, TextOut: ""}
	}
	var err error
	var pn string
	WithStdout(c.Dir, func() { err, pn = RunCommand(now, cmd) })
	cls := classify(err, pn)
	ctx := fmt.Sprintf("%s over items x,y,z; fault %s in item %s", k.Cmd, k.Fault, items[k.Pos])
	if cls == "panic" {
		return "C16/" + k.Cmd + "/panic/multi-item", ctx + ": " + firstLine(pn)
	}
	if k.Fault != "none" {
		if cls == "nil" {
			return "C16/" + k.Cmd + "/silent-success/one-of-several-items-failed", ctx + ": the run reported success although that item could not be processed"
		}
		return "", ""
	}
	if cls != "nil" {
		return "C16/" + k.Cmd + "/failed-without-fault/multi-item", fmt.Sprintf("%s: %s (%v)", ctx, cls, err)
	}
	if k.Cmd == "sum-copy" {
		for _, it := range items {
			b, _ := os.ReadFile(filepath.Join(dbase, "it", it, "sum.wsp"))
			f, perr := wsp.Parse(b)
			var got []wsp.Ring
			if perr == nil {
				got, perr = f.Rings()
			}
			if perr != nil {
				return "C16/sum-copy/effect/no-destination/multi-item", ctx + ": item " + it + ": " + perr.Error()
			}
			have, _ := ExpRead(l, got, -1, 0, now, now)
			for i, e := range sums[it] {
				for j, v := range e.Vals {
					if !valEqual(v, have[i].Vals[j]) {
						return "C16/sum-copy/effect/destination/multi-item", fmt.Sprintf("%s: item %s archive %d value %d is %v, the sum is %v", ctx, it, i, j, have[i].Vals[j], v)
					}
				}
			}
		}
	}
	return "", ""
}

func c16Multi(c *fw.Ctx) {
	for _, cmd := range []string{"sum", "sum-copy", "sum-diff"} {
		for _, fault := range []string{"none", "truncated", "corrupt-method", "files-differ-in-layout"} {
			for pos := 0; pos < 3; pos++ {
				if fault == "none" && pos > 0 {
					continue
				}
				k := c16MultiCase{Kind: "multi-item", Cmd: cmd, Fault: fault, Pos: pos}
				sig, desc := c16MultiEval(c, k)
				c.Count("evaluations", 1)
				c.Count("distinct_nontrivial", 1)
				c.Outcome(cmd + "/multi-item")
				if sig != "" {
					c.Violate(sig, desc, 20+pos, k, "")
				}
			}
		}
	}
}

func runC16(c *fw.Ctx) {
	if c.Shard == 0 {
		c16Multi(c)
	}
	worlds := 2
	if c.Thorough() {
		worlds = 6 // further contents (see c16Build): sparse, dense, all-absent sources, destination = source ...
	}
	c.R.Bounds["product"] = fmt.Sprintf("%d commands x archive {-1,0,1,2,-2} x %d windows x %d text-out destinations x %d environments x 2 worlds", len(c16Cmds), len(c16Windows), len(c16TextOuts), len(c16Envs))
	for world := 0; world < worlds; world++ {
		for _, cmd := range c16Cmds {
			for _, arch := range []int{-1, 0, 1, 2, -2} {
				for _, win := range c16Windows {
					if cmd == "generate" && (arch != -1 || win != "default") {
						continue
					}
					for _, to := range c16TextOuts {
						for _, env := range c16Envs {
							if (env == "generate-dest-exists" || env == "generate-no-fill") && cmd != "generate" {
								continue
							}
							if cmd == "generate" && strings.HasPrefix(env, "src-") {
								continue
							}
							if (env == "dest-missing" || env == "dest-corrupt-method") && cmd != "copy" && cmd != "sum-copy" && cmd != "diff" && cmd != "sum-diff" {
								continue
							}
							if !c.Mine() {
								continue
							}
							if c.Expired() {
								return
							}
							k := c16Case{World: world, Cmd: cmd, Archive: arch, Window: win, TextOut: to, Env: env}
							sig, desc, nt, outcome := c16Eval(c, k)
							c.Count("evaluations", 1)
							if nt {
								c.Count("distinct_nontrivial", 1)
							}
							c.Outcome(cmd + "/" + outcome)
							if sig != "" {
								wgt := 0
								if arch != -1 {
									wgt += 2
								}
								if win != "default" {
									wgt += 2
								}
								if to != "none" {
									wgt++
								}
								if env != "ok" {
									wgt += 3
								}
								c.Violate(sig, desc, wgt, k, "")
							}
							if env != "ok" && to == "file" {
								c.Sample(4, k)
							}
						}
					}
				}
			}
		}
	}
}

func replayC16(c *fw.Ctx, raw json.RawMessage) (bool, string) {
	var mk c16MultiCase
	if json.Unmarshal(raw, &mk) == nil && mk.Kind == "multi-item" {
		sig, desc := c16MultiEval(c, mk)
		return sig != "", desc
	}
	var k c16Case
	if err := json.Unmarshal(raw, &k); err != nil {
		return false, err.Error()
	}
	sig, desc, _, _ := c16Eval(c, k)
	return sig != "", desc
}

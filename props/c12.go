package props

import (
	"bytes"
	"encoding/json"
	"fmt"
	"io"
	"math"
	"net"
	"net/http"
	neturl "net/url"
	"os"
	"path/filepath"
	"regexp"
	"strings"
	"sync"
	"time"

	wt "github.com/hnakamur/whispertool"
	wcmd "github.com/hnakamur/whispertool/cmd"

	"verif/fw"
	"verif/vrt"
	"verif/wsp"
)

// C12 - remote/local transparency.  Each worker starts the real
// ServerCommand.Execute() once (real ListenAndServe on a loopback port) over
// its world directory; every read case is executed twice - base = directory,
// base = http://127.0.0.1:port - through real HTTP round trips, and the two
// observations (normalised text output, error class, destination bytes for
// copy) must be equal.

type c12Case struct {
	Code    []int  `json:"file_slots"`
	Code2   []int  `json:"second_file_slots"`
	Now     int64  `json:"now"`
	Cmd     string `json:"cmd"`    // view | view-raw | sum | diff | copy | diff-glob | copy-glob
	Target  string `json:"target"` // existing | missing | nomatch
	Archive int    `json:"archive"`
	From    int64  `json:"from"`
	Until   int64  `json:"until"`
	Sort    bool   `json:"sort"`
}

func init() {
	fw.Register(&fw.Prop{
		ID: "C12", Level: "exploration", Run: runC12, Replay: replayC12,
		Rule:        "a case = (served tree content, clock, read command, target existing/missing/non-matching, archive selection, window); each is run against the directory and against the URL of a real whispertool server serving that directory; non-trivial = the local run produced output or a not-exist / diff-found classification (not a generic error).",
		Assumptions: []string{"time:/duration: fields and the text of err: lines (they embed clock readings and base paths) are dropped before comparing", "error classes: nil, diff-found, not-exist (os.IsNotExist), other", "the whole check runs with time.Local = UTC+09:30 (the pinned tests run in UTC)"},
		NeedsInstr:  []string{"cmd:time.Now"},
		// local and remote must agree in every zone; client and server (one process here) run at +09:30, so a timestamp
		// rendered or parsed in the local zone on one side of the wire shifts the remote window by 34200 s
		ZoneOffsetS: 34200,
	})
}

var (
	c12Once sync.Once
	c12URL  string
	c12Root string
	c12Base string // what the server was given as its base directory: "served", relative to c12Cwd
	c12Cwd  string
	c12Err  string
)

func c12Server(c *fw.Ctx) (string, string) {
	c12Once.Do(func() {
		// set once, before the first request: the transport's own goroutines read it without synchronisation
		http.DefaultTransport.(*http.Transport).MaxIdleConnsPerHost = 4
		c12Root = filepath.Join(c.Dir, "served")
		os.MkdirAll(c12Root, 0755)
		// the server is given a RELATIVE base directory (the tool's default is the relative "."): requests then
		// depend on the process's working directory, which C17 resets before every execution
		c12Base = c12Root
		if os.Chdir(c.Dir) == nil {
			c12Cwd, c12Base = c.Dir, "served"
		}
		ln, err := net.Listen("tcp", "127.0.0.1:0")
		if err != nil {
			c12Err = "no loopback port: " + err.Error()
			return
		}
		addr := ln.Addr().String()
		ln.Close()
		go func() {
			err := (&wcmd.ServerCommand{Addr: addr, BaseDir: c12Base}).Execute()
			c12Err = fmt.Sprint("server ended: ", err)
		}()
		c12URL = "http://" + addr
		// the port was chosen by listen-and-close: make sure the server that answers is OURS (another worker
		// could have been given the same port in between) by asking it for a marker file only we have
		marker := fmt.Sprintf("marker-%d-%d.txt", os.Getpid(), time.Now().UnixNano())
		os.WriteFile(filepath.Join(c12Root, marker), []byte("x"), 0644)
		for i := 0; i < 200; i++ {
			resp, err := http.Get(c12URL + "/files?pattern=" + marker)
			if err == nil {
				b, _ := io.ReadAll(resp.Body)
				resp.Body.Close()
				if strings.TrimSpace(string(b)) == marker {
					return
				}
				c12Err = "the server answering on " + addr + " is not the one this worker started"
				c12URL = ""
				return
			}
			time.Sleep(25 * time.Millisecond)
		}
		c12Err = "server did not start listening on " + addr
		c12URL = ""
	})
	if c12Cwd != "" {
		os.Chdir(c12Cwd) // code under test that left the working directory changed must not spoil the next evaluation
	}
	return c12URL, c12Root
}

var c12DropRe = regexp.MustCompile(`(time|duration):[^\t\n]*`)

func c12Norm(text string) string {
	text = c12DropRe.ReplaceAllString(text, "$1:-")
	var out []string
	for _, ln := range strings.Split(text, "\n") {
		if strings.HasPrefix(ln, "err:") {
			ln = "err:-" + ln[strings.LastIndex(ln, "\t"):]
		}
		out = append(out, ln)
	}
	return strings.Join(out, "\n")
}

// the third choice is IEEE negative zero: a stored value whose sign only a bit-exact transport keeps
var c12Choices = []SlotChoice{{Kind: "absent"}, {Kind: "value", V: 0.1}, {Kind: "value", V: math.Copysign(0, -1)}}

func c12Eval(c *fw.Ctx, k c12Case) (sig, desc string, nontrivial bool) {
	url, root := c12Server(c)
	if url == "" {
		c.Inconclusive("C12: " + c12Err)
		return "", "", false
	}
	ld := LayoutByTag("L4")
	l := wsp.Layout{Archs: ld.Archs, Method: 2, XFF: 0}
	os.RemoveAll(root)
	os.MkdirAll(root, 0755)
	r1 := contentByCode(l, k.Now, c12Choices, k.Code)
	r2 := contentByCode(l, k.Now, c10Choices(1, 3), k.Code2)
	(&BFile{L: l, Rings: r1, Base: basePicks(k.Code, 2)}).Write(filepath.Join(root, "a.wsp"))
	(&BFile{L: l, Rings: r1}).Write(filepath.Join(root, "g", "a.wsp"))
	(&BFile{L: l, Rings: r2}).Write(filepath.Join(root, "g", "b.wsp"))
	(&BFile{L: l, Rings: r1}).Write(filepath.Join(root, "it", "x", "a.wsp"))
	(&BFile{L: l, Rings: r2}).Write(filepath.Join(root, "it", "x", "b.wsp"))
	(&BFile{L: l, Rings: r2}).Write(filepath.Join(root, "it", "y", "a.wsp"))
	// names that need escaping on the wire or contain white space
	(&BFile{L: l, Rings: r2}).Write(filepath.Join(root, "g", "c d+e&f.wsp"))
	(&BFile{L: l, Rings: r1}).Write(filepath.Join(root, "it", "z w", "a b.wsp"))
	(&BFile{L: l, Rings: r1}).Write(filepath.Join(root, "sp ace%41#.wsp"))
	// ... and whose special characters are part of the PATTERN the client sends (a decoy matches the mis-decoded form)
	(&BFile{L: l, Rings: r1}).Write(filepath.Join(root, "it", "p+q&r", "a+b&c.wsp"))
	(&BFile{L: l, Rings: r2}).Write(filepath.Join(root, "it", "p q", "a b.wsp"))
	(&BFile{L: l, Rings: r2}).Write(filepath.Join(root, "it", "p+q&r", "a b.wsp"))
	(&BFile{L: l, Rings: r1}).Write(filepath.Join(root, "g", "x+y&z=1.wsp"))
	(&BFile{L: l, Rings: r2}).Write(filepath.Join(root, "g", "x y.wsp"))
	// a file whose stored maxRetention field differs from its last archive's retention (Open does not cross-check it)
	{
		b := (&BFile{L: l, Rings: r1}).Bytes()
		b[4], b[5], b[6], b[7] = 0, 0, 4, 176 // 1200
		os.MkdirAll(filepath.Join(root, "odd"), 0755)
		os.WriteFile(filepath.Join(root, "odd", "mr.wsp"), b, 0644)
		os.MkdirAll(filepath.Join(root, "oddit", "x"), 0755)
		os.WriteFile(filepath.Join(root, "oddit", "x", "a.wsp"), b, 0644)
	}
	// multi-level patterns over directory names where one is a strict prefix of a sibling ('-' sorts before '/' and '.')
	(&BFile{L: l, Rings: r1}).Write(filepath.Join(root, "ml", "web", "a.wsp"))
	(&BFile{L: l, Rings: r2}).Write(filepath.Join(root, "ml", "web-01", "a.wsp"))
	(&BFile{L: l, Rings: r2}).Write(filepath.Join(root, "ml", "web", "b.wsp"))
	(&BFile{L: l, Rings: r1}).Write(filepath.Join(root, "mi", "web", "a.wsp"))
	(&BFile{L: l, Rings: r2}).Write(filepath.Join(root, "mi-b", "web", "a.wsp"))
	(&BFile{L: l, Rings: r2}).Write(filepath.Join(root, "mi", "web-01", "a.wsp"))
	// names whose first path component starts with a dot; a decoy without the dot holds other data
	(&BFile{L: l, Rings: r1}).Write(filepath.Join(root, ".hid", "a.wsp"))
	(&BFile{L: l, Rings: r2}).Write(filepath.Join(root, "hid", "a.wsp"))
	(&BFile{L: l, Rings: r1}).Write(filepath.Join(root, ".hid", ".b.wsp"))
	(&BFile{L: l, Rings: r2}).Write(filepath.Join(root, ".hid", "b.wsp"))
	file, glob, item, srcpat := "a.wsp", "g/*.wsp", "it/*", "*.wsp"
	switch k.Target {
	case "hidden-name":
		file, glob = ".hid/a.wsp", ".hid/.*.wsp"
	case "missing":
		file, glob, item, srcpat = "nope.wsp", "g/nope.wsp", "it/x", "z*.wsp"
	case "nomatch":
		file, glob, item, srcpat = "nodir/a.wsp", "g/z*.wsp", "no/*", "*.wsp"
	case "odd-name":
		file, glob, item, srcpat = "sp ace%41#.wsp", "g/c*.wsp", "it/z*", "a*.wsp"
	case "odd-header":
		file, glob, item, srcpat = "odd/mr.wsp", "odd/*.wsp", "oddit/*", "*.wsp"
	case "multi-level":
		file, glob, item, srcpat = "ml/web/a.wsp", "ml/*/*.wsp", "mi*/w*", "*.wsp"
	case "odd-pattern":
		file, glob, item, srcpat = "g/x+y&z=1.wsp", "g/x+y&z*.wsp", "it/p+q&r", "a+b&*.wsp"
	case "many":
		// 1100 matches with paths of about 1000 bytes: the listing the server sends for the pattern is larger than 1 MiB
		file, glob, item, srcpat = "a.wsp", "many/*/*/*/*.wsp", "manyit/*/*/*/*", "*.wsp"
		for _, rel := range c12ManyPaths() {
			(&BFile{L: l, Rings: r1}).Write(filepath.Join(root, "many", rel+".wsp"))
			(&BFile{L: l, Rings: r2}).Write(filepath.Join(root, "manyit", rel, "a.wsp"))
		}
	case "big":
		file, glob, item, srcpat = "big/a.wsp", "big/*.wsp", "bigit/*", "*.wsp"
		bl := wsp.Layout{Archs: wsp.ParseLayout("1s:150000s,60s:600000s"), Method: 2}
		br := EmptyRings(bl)
		for j := int64(0); j < 150000; j += 7 {
			t := k.Now - j
			br[0][uint32(t)%150000] = wsp.Slot{T: uint32(t), V: float64(j%100) + 0.5}
		}
		(&BFile{L: bl, Rings: br}).Write(filepath.Join(root, "big", "a.wsp"))
		(&BFile{L: bl, Rings: br}).Write(filepath.Join(root, "bigit", "x", "a.wsp"))
		l = bl
	}
	type obs struct {
		cls, text string
		dest      []byte
		es        string
	}
	run := func(base string, tag string) obs {
		out := filepath.Join(c.Dir, "c12out-"+tag+".txt")
		ddir := filepath.Join(c.Dir, "c12dest-"+tag)
		os.RemoveAll(ddir)
		// a destination that differs from the source in a fixed way
		(&BFile{L: l, Rings: r2}).Write(filepath.Join(ddir, "a.wsp"))
		(&BFile{L: l, Rings: r2}).Write(filepath.Join(ddir, "g", "a.wsp"))
		(&BFile{L: l, Rings: r2}).Write(filepath.Join(ddir, "g", "b.wsp"))
		if k.Target == "many" {
			for _, rel := range c12ManyPaths() {
				(&BFile{L: l, Rings: r2}).Write(filepath.Join(ddir, "many", rel+".wsp"))
			}
		}
		if k.Target == "big" {
			os.RemoveAll(ddir)
			(&BFile{L: l, Rings: EmptyRings(l)}).Write(filepath.Join(ddir, "big", "a.wsp"))
		}
		if strings.HasPrefix(k.Cmd, "diff") {
			// only ONE side may be missing: with two faults the reported one depends on goroutine timing
			(&BFile{L: l, Rings: r2}).Write(filepath.Join(ddir, "nope.wsp"))
			(&BFile{L: l, Rings: r2}).Write(filepath.Join(ddir, "g", "nope.wsp"))
			(&BFile{L: l, Rings: r2}).Write(filepath.Join(ddir, "nodir", "a.wsp"))
		}
		var cmd Executor
		switch k.Cmd {
		case "view":
			cmd = &wcmd.ViewCommand{SrcBase: base, SrcRelPath: file, From: tsOf(k.From), Until: tsOf(k.Until), ArchiveID: k.Archive, ShowHeader: true, TextOut: out}
		case "view-raw":
			cmd = &wcmd.ViewRawCommand{SrcBase: base, SrcRelPath: file, From: tsOf(k.From), Until: tsOf(k.Until), ArchiveID: k.Archive, ShowHeader: true, SortsByTime: k.Sort, TextOut: out}
		case "sum":
			cmd = &wcmd.SumCommand{SrcBase: base, ItemPattern: item, SrcPattern: srcpat, From: tsOf(k.From), Until: tsOf(k.Until), ArchiveID: k.Archive, TextOut: out, ShowHeader: true}
		case "diff":
			cmd = &wcmd.DiffCommand{SrcBase: base, SrcRelPath: file, DestBase: ddir, From: tsOf(k.From), Until: tsOf(k.Until), ArchiveID: k.Archive, TextOut: out}
		case "diff-glob":
			cmd = &wcmd.DiffCommand{SrcBase: base, SrcRelPath: glob, DestBase: ddir, From: tsOf(k.From), Until: tsOf(k.Until), ArchiveID: k.Archive, TextOut: out}
		case "copy":
			cmd = &wcmd.CopyCommand{SrcBase: base, SrcRelPath: file, DestBase: ddir, AggregationMethod: wt.Sum, ArchiveInfoList: archList(l.Archs), From: tsOf(k.From), Until: tsOf(k.Until), ArchiveID: k.Archive, TextOut: out, CopyNaN: k.Sort}
		case "copy-glob":
			cmd = &wcmd.CopyCommand{SrcBase: base, SrcRelPath: glob, DestBase: ddir, AggregationMethod: wt.Sum, ArchiveInfoList: archList(l.Archs), From: tsOf(k.From), Until: tsOf(k.Until), ArchiveID: k.Archive, TextOut: out, CopyNaN: k.Sort}
		case "sum-diff":
			// every item has a destination: a missing one plus another fault would be a two-fault race (see DESIGN 15.2)
			for i, it := range []string{"it/x", "it/y", "it/z w", "it/p+q&r", "it/p q", "mi/web", "mi/web-01", "mi-b/web", "oddit/x"} {
				(&BFile{L: l, Rings: [][]wsp.Ring{r1, r2}[i%2]}).Write(filepath.Join(ddir, it, "sum.wsp"))
			}
			cmd = &wcmd.SumDiffCommand{SrcBase: base, ItemPattern: item, SrcPattern: srcpat, DestBase: ddir, DestRelPath: "sum.wsp", From: tsOf(k.From), Until: tsOf(k.Until), ArchiveID: k.Archive, TextOut: out}
		}
		err, pn := RunCommand(k.Now, cmd)
		o := obs{cls: classify(err, pn), text: c12Norm(readAndRemove(out))}
		if err != nil {
			o.es = err.Error()
		}
		o.es += firstLine(pn)
		if strings.HasPrefix(k.Cmd, "copy") {
			for _, f := range []string{"a.wsp", "g/a.wsp", "g/b.wsp", "g/c d+e&f.wsp", "sp ace%41#.wsp", "big/a.wsp", "g/x+y&z=1.wsp", "g/x y.wsp", "ml/web/a.wsp", "ml/web-01/a.wsp", "ml/web/b.wsp", "odd/mr.wsp", ".hid/a.wsp", ".hid/.b.wsp"} {
				b, _ := os.ReadFile(filepath.Join(ddir, f))
				o.dest = append(o.dest, b...)
			}
		}
		os.RemoveAll(ddir)
		return o
	}
	lo := run(root, "l")
	re := run(url, "r")
	nontrivial = lo.cls != "error" && lo.cls != "panic"
	ctx := fmt.Sprintf("%s target=%s now=%d file=%v second=%v archive=%d from=%d until=%d sort/nan=%v", k.Cmd, k.Target, k.Now, k.Code, k.Code2, k.Archive, k.From, k.Until, k.Sort)
	if lo.cls != re.cls {
		return fmt.Sprintf("C12/%s/%s/class/local-%s-remote-%s", k.Cmd, k.Target, lo.cls, re.cls), fmt.Sprintf("%s: local %s (%s), remote %s (%s)", ctx, lo.cls, lo.es, re.cls, re.es), nontrivial
	}
	if lo.text != re.text {
		return "C12/" + k.Cmd + "/" + k.Target + "/output", fmt.Sprintf("%s: outputs differ\nlocal:\n%s\nremote:\n%s", ctx, clip(lo.text, 600), clip(re.text, 600)), nontrivial
	}
	if !bytes.Equal(lo.dest, re.dest) {
		return "C12/" + k.Cmd + "/" + k.Target + "/destination", ctx + ": the copy destinations differ", nontrivial
	}
	return "", "", nontrivial
}

func c12ManyPaths() []string {
	pad := func(p string) string { return p + strings.Repeat("n", 240-len(p)) }
	var out []string
	for i := 0; i < 1100; i++ {
		out = append(out, filepath.Join(pad("d1-"), pad("d2-"), pad(fmt.Sprintf("d3-%d-", i%3)), pad(fmt.Sprintf("f%04d-", i))))
	}
	return out
}

// c12ClockIndependence: a request carries the client's clock ("now"); the server's answer is a function of the request
// and the files alone, so the same request under other SERVER clocks gets the same bytes.
func c12ClockIndependence(c *fw.Ctx, k c12Case) (sig, desc string) {
	url, root := c12Server(c)
	if url == "" {
		return "", ""
	}
	ld := LayoutByTag("L4")
	l := wsp.Layout{Archs: ld.Archs, Method: 2, XFF: 0}
	os.RemoveAll(root)
	r1 := contentByCode(l, k.Now, c12Choices, k.Code)
	r2 := contentByCode(l, k.Now, c10Choices(1, 3), k.Code2)
	(&BFile{L: l, Rings: r1}).Write(filepath.Join(root, "a.wsp"))
	(&BFile{L: l, Rings: r1}).Write(filepath.Join(root, "it", "x", "a.wsp"))
	(&BFile{L: l, Rings: r2}).Write(filepath.Join(root, "it", "x", "b.wsp"))
	ts := func(t int64) string { return wt.Timestamp(t).String() }
	get := func(u string) string {
		resp, err := http.Get(url + u)
		if err != nil {
			return "transport error: " + err.Error()
		}
		defer resp.Body.Close()
		b, _ := io.ReadAll(resp.Body)
		return fmt.Sprintf("%d %x", resp.StatusCode, b)
	}
	rmax := l.MaxRet()
	for _, w := range [][2]int64{{k.Now - rmax - 1, k.Now}, {k.Now - 3, k.Now - 1}, {0, k.Now}} {
		for _, arch := range []string{"-1", "0", "1"} {
			reqs := []string{
				"/view?file=a.wsp&retention=" + arch + "&from=" + neturl.QueryEscape(ts(w[0])) + "&until=" + neturl.QueryEscape(ts(w[1])) + "&now=" + neturl.QueryEscape(ts(k.Now)),
				"/sum?item=it.x&pattern=" + neturl.QueryEscape("*.wsp") + "&retention=" + arch + "&from=" + neturl.QueryEscape(ts(w[0])) + "&until=" + neturl.QueryEscape(ts(w[1])) + "&now=" + neturl.QueryEscape(ts(k.Now)),
			}
			for _, rq := range reqs {
				vrt.SetNow(k.Now)
				ref := get(rq)
				for _, skew := range []int64{-7, -1, 5, 3600} {
					vrt.SetNow(k.Now + skew)
					got := get(rq)
					vrt.SetNow(0)
					if got != ref {
						return "C12/server-clock/" + strings.SplitN(rq[1:], "?", 2)[0], fmt.Sprintf("request %s (client clock %d): answered %s when the server's clock is the client's, %s when it is %+d s off", rq, k.Now, clip(ref, 200), clip(got, 200), skew)
					}
				}
				vrt.SetNow(0)
			}
		}
	}
	return "", ""
}

func runC12(c *fw.Ctx) {
	ld := LayoutByTag("L4")
	clocks := Clocks(ld.Archs, false, []string{"mid"})
	rmax, r0 := ld.Archs[1].Ret(), ld.Archs[0].Ret()
	codes := allCodes(5, 3)
	c.R.Bounds["many"] = "1100 matched files / items whose paths are about 1000 bytes each (listing on the wire > 1 MiB), diff with glob and sum"
	c.R.Bounds["big"] = "one 2.4 MB file (1s:150000s,60s:600000s, every 7th slot filled) read over its whole retention by view, view-raw, sum, diff, copy"
	c.R.Bounds["worlds"] = "L4: every content of the main file over {absent, 0.1, -2} (243) x a rotating second file; tree with a plain file, a glob directory of two files and two items"
	c.R.Bounds["options"] = "commands view, view-raw, sum, diff, diff with glob, copy, copy with glob, sum-diff x target existing/missing/non-matching x archive all/0/1/2(out of range) x 7 windows (incl. zero-length ones) x 2 clocks"
	idx := 0
	for ci, now := range []int64{clocks[1], clocks[len(clocks)-1]} {
		wins := [][2]int64{{0, 0}, {now - 3, now - 1}, {now - r0 - 2, 0}, {now - rmax - 4, now - rmax + 1}, {now + 2, now + 5}, {now - 2, now - 2}, {now, now}}
		for si, code := range codes {
			if !c.Mine() {
				continue
			}
			if c.Expired() {
				return
			}
			code2 := codes[(si*7+11*ci)%len(codes)]
			if si%122 == 0 {
				// a pattern whose listing on the wire is larger than a megabyte
				for _, cmd := range []string{"diff-glob", "sum"} {
					k := c12Case{Code: code, Code2: code2, Now: now, Cmd: cmd, Target: "many", Archive: -1}
					sig, desc, nt := c12Eval(c, k)
					c.Count("evaluations", 1)
					if nt {
						c.Count("distinct_nontrivial", 1)
					}
					c.Outcome(cmd + "/many")
					if sig != "" {
						c.Violate(sig, clip(desc, 1500), 60, k, "")
					}
				}
			}
			if si%20 == 0 {
				k := c12Case{Code: code, Code2: code2, Now: now, Cmd: "server-clock", Target: "existing", Archive: -1}
				sig, desc := c12ClockIndependence(c, k)
				c.Count("evaluations", 1)
				c.Count("distinct_nontrivial", 1)
				c.Outcome("server-clock")
				if sig != "" {
					c.Violate(sig, clip(desc, 1500), 40, k, "")
				}
			}
			if si%61 == 0 {
				// a served file whose whole-retention answer is larger than a megabyte
				for _, cmd := range []string{"view", "sum", "diff", "copy", "view-raw"} {
					k := c12Case{Code: code, Code2: code2, Now: now, Cmd: cmd, Target: "big", Archive: -1}
					sig, desc, nt := c12Eval(c, k)
					c.Count("evaluations", 1)
					if nt {
						c.Count("distinct_nontrivial", 1)
					}
					c.Outcome(cmd + "/big")
					if sig != "" {
						c.Violate(sig, clip(desc, 1500), 50, k, "")
					}
				}
			}
			for _, cmd := range []string{"view", "view-raw", "sum", "diff", "diff-glob", "copy", "copy-glob", "sum-diff"} {
				for _, target := range []string{"existing", "missing", "nomatch", "odd-name", "odd-pattern", "multi-level", "odd-header", "hidden-name"} {
					for ai, arch := range []int{-1, 0, 1, 2} {
						for wi, w := range wins {
							idx++
							if target != "existing" && (ai > 0 || wi > 0) && (idx%7 != 0) {
								continue
							}
							if target != "existing" && arch == 2 {
								continue // two simultaneous faults: which one is reported is a race inside the command, in either mode
							}
							if !c.Thorough() && (ai > 0 && wi > 0) && idx%3 != 0 {
								continue
							}
							k := c12Case{Code: code, Code2: code2, Now: now, Cmd: cmd, Target: target, Archive: arch, From: w[0], Until: w[1], Sort: idx%2 == 0}
							sig, desc, nt := c12Eval(c, k)
							if len(c.R.Inconclusive) > 0 {
								return
							}
							c.Count("evaluations", 1)
							if nt {
								c.Count("distinct_nontrivial", 1)
							}
							c.Outcome(cmd + "/" + target)
							if sig != "" {
								n := 0
								for _, x := range code {
									if x != 0 {
										n++
									}
								}
								c.Violate(sig, desc, n+ai+wi, k, "")
							}
							if nt && cmd == "sum" {
								c.Sample(3, k)
							}
						}
					}
				}
			}
		}
	}
}

func replayC12(c *fw.Ctx, raw json.RawMessage) (bool, string) {
	var k c12Case
	if err := json.Unmarshal(raw, &k); err != nil {
		return false, err.Error()
	}
	if k.Cmd == "server-clock" {
		sig, desc := c12ClockIndependence(c, k)
		return sig != "", desc
	}
	sig, desc, _ := c12Eval(c, k)
	return sig != "", desc
}

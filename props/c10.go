package props

import (
	"encoding/json"
	"fmt"
	"math"
	"os"
	"path/filepath"
	"strings"

	wcmd "github.com/hnakamur/whispertool/cmd"

	"verif/fw"
	"verif/wsp"
)

// C10 - sum is the slot-wise NaN-skipping sum of the matched files.  Engine B
// over items of 1-3 files whose contents enumerate every hole pattern; the
// printed series is parsed back and compared with the sum computed from the
// model states.

type c10Case struct {
	Layout  string  `json:"layout"`
	Now     int64   `json:"now"`
	Codes   [][]int `json:"file_slot_choices"` // one code per file a, b, c
	Base    int     `json:"choices_per_slot"`
	Mode    string  `json:"mode"` // sum | nomatch-item | nomatch-file | layout-mismatch | one-file-pattern
	Archive int     `json:"archive"`
	From    int64   `json:"from"`
	Until   int64   `json:"until"`
	Header  bool    `json:"header"`
	// ZeroLater: the second value of the files after the first is 0 (a hole in an earlier file followed by a stored 0)
	ZeroLater bool `json:"zero_in_later_files,omitempty"`
	Laps      bool `json:"points_of_other_laps,omitempty"`
}

func init() {
	fw.Register(&fw.Prop{
		ID: "C10", Level: "exploration", Run: runC10, Replay: replayC10,
		Rule:        "a case = (contents of the 1-3 files of an item, clock, archive selection, window, mode); contents enumerate every hole pattern ({absent, v} per slot for 3 files, {absent, v, w} for 1-2 files) with file-specific values so that a sum identifies its contributors; non-trivial = at least one slot of the window has a value in some but not all files.",
		Assumptions: []string{"values are small integers incl. 0 and cancelling pairs: float addition is exact and order-independent", "the -item option is a directory pattern relative to the base (it/x), printed dotted (it.x)"},
		NeedsInstr:  []string{"cmd:time.Now"},
	})
}

// c10Choices: file-specific values so that a sum identifies its contributors.  The second value of each file
// makes running totals hit exactly zero (a stored 0 in the first file, values of later files that cancel the
// earlier ones): a sum must treat 0 as a value, not as "nothing yet".
func c10Choices(file, base int) []SlotChoice {
	v := float64(int(1) << uint(file))
	w := []float64{0, -1, -3, -7}[file%4] // a: 0 ; b: -1 (cancels a's 1) ; c: -3 (cancels 1+2)
	ch := []SlotChoice{{Kind: "absent"}, {Kind: "value", V: v}, {Kind: "value", V: w}}
	return ch[:base]
}

// ExpSum: NaN-skipping slot-wise sum over the files (in name order) of an item.
func ExpSum(l wsp.Layout, files [][]wsp.Ring, sel int, from, until, now int64) ([]*ExpSeries, bool) {
	var out []*ExpSeries
	for fi, r := range files {
		s, ok := ExpRead(l, r, sel, from, until, now)
		if !ok {
			return nil, false
		}
		if fi == 0 {
			out = make([]*ExpSeries, len(s))
			for i := range s {
				if s[i] != nil {
					out[i] = &ExpSeries{Shape: s[i].Shape, Vals: append([]float64{}, s[i].Vals...)}
				}
			}
			continue
		}
		for i := range s {
			if s[i] == nil {
				continue
			}
			for j, v := range s[i].Vals {
				switch {
				case math.IsNaN(out[i].Vals[j]):
					out[i].Vals[j] = v
				case !math.IsNaN(v):
					out[i].Vals[j] += v
				}
			}
		}
	}
	return out, true
}

func expPoints(s []*ExpSeries) []PointRec {
	var out []PointRec
	for i, e := range s {
		if e == nil {
			continue
		}
		for j, v := range e.Vals {
			out = append(out, PointRec{i, e.Shape.From + int64(j)*e.Shape.Step, v})
		}
	}
	return out
}

func comparePoints(got, want []PointRec) string {
	if len(got) != len(want) {
		return fmt.Sprintf("%d point lines, want %d", len(got), len(want))
	}
	for i := range want {
		if got[i].Arch != want[i].Arch || got[i].T != want[i].T || !sameVal(got[i].V, want[i].V) {
			return fmt.Sprintf("line %d is %v, want %v", i, got[i], want[i])
		}
	}
	return ""
}

// c10World writes base/it/x/{a,b,c}.wsp and base/it/y/a.wsp; returns the model contents of item x and y.
func c10World(root string, l wsp.Layout, k c10Case) (x [][]wsp.Ring, y [][]wsp.Ring) {
	os.RemoveAll(root)
	names := []string{"a.wsp", "b.wsp", "c.wsp"}
	for f, code := range k.Codes {
		ch := c10Choices(f, k.Base)
		if k.ZeroLater && f > 0 && len(ch) == 3 {
			ch[2].V = 0
		}
		if k.Laps && len(ch) == 3 { // the second choice is a point of another lap of the ring: not a value of this slot
			ch[2] = SlotChoice{Kind: []string{"newer", "stale"}[f%2], V: 9}
		}
		r := contentByCode(l, k.Now, ch, code)
		(&BFile{L: l, Rings: r, Base: basePicks(code, len(l.Archs))}).Write(filepath.Join(root, "it", "x", names[f]))
		x = append(x, r)
	}
	yc := make([]int, len(k.Codes[0]))
	for i := range yc {
		yc[i] = (i + 1) % 2
	}
	ry := contentByCode(l, k.Now, c10Choices(3, 2), yc)
	// in half of the worlds (by the first file's content) the second item is a symbolic link to a directory outside
	// the item pattern: a matched item is an item whatever kind of directory entry it is
	if codeParity(k.Codes[0]) == 1 {
		(&BFile{L: l, Rings: ry}).Write(filepath.Join(root, "elsewhere-y", "a.wsp"))
		if os.Symlink(filepath.Join("..", "elsewhere-y"), filepath.Join(root, "it", "y")) == nil {
			return x, [][]wsp.Ring{ry}
		}
	}
	(&BFile{L: l, Rings: ry}).Write(filepath.Join(root, "it", "y", "a.wsp"))
	return x, [][]wsp.Ring{ry}
}

func c10Eval(c *fw.Ctx, k c10Case) (sig, desc string, nontrivial bool) {
	ld := LayoutByTag(k.Layout)
	l := wsp.Layout{Archs: ld.Archs, Method: 2, XFF: 0}
	root := filepath.Join(c.Dir, "c10")
	x, y := c10World(root, l, k)
	until := k.Until
	if until == 0 {
		until = k.Now
	}
	out := filepath.Join(c.Dir, "c10out.txt")
	ctx := fmt.Sprintf("sum layout %s now=%d files=%v mode=%s archive=%d from=%d until=%d", k.Layout, k.Now, k.Codes, k.Mode, k.Archive, k.From, k.Until)
	cmd := &wcmd.SumCommand{SrcBase: root, ItemPattern: "it/*", SrcPattern: "*.wsp", From: tsOf(k.From), Until: tsOf(k.Until), ArchiveID: k.Archive, TextOut: out, ShowHeader: k.Header}
	switch k.Mode {
	case "nomatch-item":
		cmd.ItemPattern = "nothing/*"
	case "nomatch-file":
		cmd.SrcPattern = "z*.wsp"
	case "nomatch-file-in-one-item":
		cmd.SrcPattern = "b.wsp" // item x has it (two files or more), item y has only a.wsp
	case "one-file-pattern":
		cmd.SrcPattern = "a.wsp"
		x = x[:1]
	case "layout-mismatch-points":
		// same archive count and steps, only the point count of the coarser archive differs
		oa := wsp.ParseLayout("1s:2s,2s:8s")
		(&BFile{L: wsp.Layout{Archs: oa, Method: 2}, Rings: EmptyRings(wsp.Layout{Archs: oa})}).Write(filepath.Join(root, "it", "x", "b.wsp"))
	case "layout-mismatch":
		o := LayoutByTag("L5")
		(&BFile{L: wsp.Layout{Archs: o.Archs, Method: 2}, Rings: EmptyRings(wsp.Layout{Archs: o.Archs})}).Write(filepath.Join(root, "it", "x", "b.wsp"))
	}
	err, pn := RunCommand(k.Now, cmd)
	text := readAndRemove(out)
	cls := classify(err, pn)
	if cls == "panic" {
		return "C10/panic", ctx + ": " + firstLine(pn), false
	}
	switch k.Mode {
	case "nomatch-item", "nomatch-file", "nomatch-file-in-one-item":
		if k.Mode == "nomatch-file-in-one-item" && len(k.Codes) < 2 {
			return "", "", false
		}
		if cls != "not-exist" {
			return "C10/" + k.Mode + "/" + cls, fmt.Sprintf("%s: a pattern that matches nothing must be reported as not existing, got %s (%v)", ctx, cls, err), true
		}
		return "", "", true
	case "layout-mismatch", "layout-mismatch-points":
		if len(k.Codes) < 2 {
			return "", "", false
		}
		if cls != "error" {
			return "C10/layout-mismatch/" + cls, fmt.Sprintf("%s: files with differing layouts must be rejected, got %s", ctx, cls), true
		}
		return "", "", true
	}
	wantX, ok := ExpSum(l, x, k.Archive, k.From, until, k.Now)
	if !ok {
		if cls == "nil" {
			return "C10/invalid-read-not-an-error", ctx, false
		}
		return "", "", false
	}
	wantY, _ := ExpSum(l, y, k.Archive, k.From, until, k.Now)
	if cls != "nil" {
		return "C10/failed/" + cls, fmt.Sprintf("%s: %v", ctx, err), false
	}
	// holes that matter: a slot with a value in some but not all files
	for _, e := range wantX {
		if e == nil {
			continue
		}
		for j := range e.Vals {
			n := 0
			for _, r := range x {
				s, _ := ExpRead(l, r, e.Shape.Archive, k.From, until, k.Now)
				if s[e.Shape.Archive] != nil && !math.IsNaN(s[e.Shape.Archive].Vals[j]) {
					n++
				}
			}
			nontrivial = nontrivial || (n > 0 && n < len(x))
		}
	}
	// split the output per item
	segs := strings.Split(text, "now:")
	if len(segs) != 3 {
		return "C10/items", fmt.Sprintf("%s: output has %d item sections, want 2", ctx, len(segs)-1), nontrivial
	}
	for si, want := range [][]*ExpSeries{wantX, wantY} {
		seg := "now:" + segs[si+1]
		hdr, pts, other, bad := SplitOutput(seg)
		if bad != "" {
			return "C10/unparsable-output", ctx + ": " + bad, nontrivial
		}
		item := []string{"it.x", "it.y"}[si]
		if len(other) != 1 || other[0]["item"] != item {
			return "C10/item-line", fmt.Sprintf("%s: section %d does not start with item %s: %v", ctx, si, item, other), nontrivial
		}
		if k.Header {
			if msg := CheckHeaderText(hdr, l); msg != "" {
				return "C10/header", ctx + ": " + msg, nontrivial
			}
		}
		if msg := comparePoints(pts, expPoints(want)); msg != "" {
			clause := "sum-value"
			if si == 1 || len(x) == 1 {
				clause = "single-file-not-itself"
			}
			if len(pts) != len(expPoints(want)) {
				clause = "window-or-step"
			}
			return "C10/" + clause, fmt.Sprintf("%s: item %s: %s", ctx, item, msg), nontrivial
		}
	}
	// the same run with the source base spelled in other valid ways (trailing slash, ./, //, ..) gives the same output
	dg := k.Archive + 1
	for _, cd := range k.Codes {
		for _, v := range cd {
			dg += v
		}
	}
	if dg%4 == 0 && k.Mode == "sum" {
		for _, sp := range []string{root + "/", filepath.Dir(root) + "/./c10", filepath.Dir(root) + "//c10", root + "/it/.."} {
			c2 := *cmd
			c2.SrcBase = sp
			err2, pn2 := RunCommand(k.Now, &c2)
			t2 := readAndRemove(out)
			if classify(err2, pn2) != cls || t2 != text {
				return "C10/base-spelling", fmt.Sprintf("%s: with -src-base %q the run gives %s (%v) and another output than with the clean spelling", ctx, sp, classify(err2, pn2), err2), nontrivial
			}
		}
	}
	return "", "", nontrivial
}

func runC10(c *fw.Ctx) {
	ld := LayoutByTag("L4")
	nslots := 5
	clocks := Clocks(ld.Archs, false, []string{"mid"})
	now := clocks[1]
	rmax, r0 := ld.Archs[1].Ret(), ld.Archs[0].Ret()
	wins := [][2]int64{{0, 0}, {now - 3, now - 1}, {now - r0 - 2, 0}, {now - rmax - 3, now - rmax + 2}, {now - 3, now - 2}}
	c.R.Bounds["contents"] = "L4: 3 files x 2^5 hole patterns each (all 32768 combinations), 2 files x 3^5 each (all 59049), 1 file 3^5; a second single-file item in every world"
	two := allCodes(nslots, 2)
	three := allCodes(nslots, 3)
	one := func(k c10Case) {
		sig, desc, nt := c10Eval(c, k)
		c.Count("evaluations", 1)
		if nt {
			c.Count("distinct_nontrivial", 1)
		}
		c.Outcome(fmt.Sprintf("%s/%dfiles", k.Mode, len(k.Codes)))
		if sig != "" {
			n := 0
			for _, cd := range k.Codes {
				for _, v := range cd {
					if v != 0 {
						n++
					}
				}
			}
			c.Violate(sig, desc, n+10*len(k.Codes), k, "")
		}
		if nt && len(k.Codes) == 3 && k.Archive == -1 {
			c.Sample(3, k)
		}
	}
	variants := func(codes [][]int, base int, idx int) {
		for ai, arch := range []int{-1, 0, 1} {
			for wi, w := range wins {
				if (ai > 0 || wi > 0) && (idx+ai+wi)%4 != 0 && !c.Thorough() {
					continue
				}
				one(c10Case{Layout: "L4", Now: now, Codes: codes, Base: base, Mode: "sum", Archive: arch, From: w[0], Until: w[1], Header: (idx+wi)%2 == 0})
			}
		}
		if base == 3 && len(codes) == 2 && idx%3 == 1 {
			one(c10Case{Layout: "L4", Now: now, Codes: codes, Base: base, Mode: "sum", Archive: -1, Laps: true})
		}
		if base == 3 && len(codes) == 2 && idx%3 == 0 {
			one(c10Case{Layout: "L4", Now: now, Codes: codes, Base: base, Mode: "sum", Archive: -1, ZeroLater: true})
		}
		if idx%97 == 0 {
			for _, m := range []string{"nomatch-item", "nomatch-file", "nomatch-file-in-one-item", "layout-mismatch", "one-file-pattern"} {
				one(c10Case{Layout: "L4", Now: now, Codes: codes, Base: base, Mode: m, Archive: -1, Header: true})
			}
			for _, arch := range []int{-1, 0, 1} {
				for _, w := range wins {
					one(c10Case{Layout: "L4", Now: now, Codes: codes, Base: base, Mode: "layout-mismatch-points", Archive: arch, From: w[0], Until: w[1]})
				}
			}
		}
	}
	idx := 0
	for _, a := range two {
		for _, b := range two {
			for _, d := range two {
				idx++
				if !c.Mine() {
					continue
				}
				if c.Expired() {
					return
				}
				variants([][]int{a, b, d}, 2, idx)
			}
		}
	}
	for _, a := range three {
		for _, b := range three {
			idx++
			if !c.Mine() {
				continue
			}
			if c.Expired() {
				return
			}
			variants([][]int{a, b}, 3, idx)
		}
	}
	for _, a := range three {
		idx++
		if !c.Mine() {
			continue
		}
		variants([][]int{a}, 3, idx)
	}
}

func replayC10(c *fw.Ctx, raw json.RawMessage) (bool, string) {
	var k c10Case
	if err := json.Unmarshal(raw, &k); err != nil {
		return false, err.Error()
	}
	sig, desc, _ := c10Eval(c, k)
	return sig != "", desc
}

func codeParity(code []int) int {
	n := 0
	for _, v := range code {
		n += v
	}
	return n % 2
}

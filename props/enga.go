package props

import (
	"crypto/sha256"
	"encoding/hex"
	"fmt"
	"math"
	"os"
	"path/filepath"
	"strings"

	wt "github.com/hnakamur/whispertool"

	"verif/fw"
	"verif/model"
	"verif/vrt"
	"verif/wsp"
)

// Engine A: explicit-state exploration of the library.  A state is the
// synced bytes of the file plus the clock.  The transition function is the
// real library applied to a real file on tmpfs; the reference model takes the
// same step from the parsed pre-state, and the parsed post-state must agree.

type ACfg struct {
	Tag    string     `json:"layout_tag"`
	Spec   string     `json:"layout"`
	Archs  []wsp.Arch `json:"-"`
	Method uint32     `json:"method"`
	XFF    float32    `json:"xff"`
	Page   int        `json:"page_size"`
}

func (c ACfg) Layout() wsp.Layout { return wsp.Layout{Archs: c.Archs, Method: c.Method, XFF: c.XFF} }

type AState struct {
	Bytes []byte
	Now   int64
}

func (s AState) Key() string {
	h := sha256.Sum256(s.Bytes)
	return fmt.Sprintf("%x@%d", h[:12], s.Now)
}

// AOp is one operation of the alphabet; ages are relative to the clock at which it is applied.
type AOp struct {
	Kind string    `json:"kind"` // W1 | WB | ADV | W1G | WBG (clock-global variants)
	Arch int       `json:"arch"` // -1 = best
	Ages []int64   `json:"ages,omitempty"`
	Vals []float64 `json:"vals,omitempty"`
	D    int64     `json:"d,omitempty"`
}

func (o AOp) String() string {
	switch o.Kind {
	case "ADV":
		return fmt.Sprintf("ADV(%d)", o.D)
	default:
		return fmt.Sprintf("%s(arch=%d ages=%v vals=%v)", o.Kind, o.Arch, o.Ages, o.Vals)
	}
}

type AObs struct {
	OpenErr string
	Err     string
	Panic   string
	Post    []byte
}

func archList(a []wsp.Arch) []wt.ArchiveInfo {
	out := make([]wt.ArchiveInfo, len(a))
	for i, x := range a {
		out[i] = wt.NewArchiveInfo(wt.Duration(x.Step), x.N)
	}
	return out
}

// CreateFile creates a fresh file through the real Create and returns its synced bytes.
func CreateFile(dir string, cfg ACfg) ([]byte, error) {
	vrt.SetPagesize(cfg.Page)
	p := filepath.Join(dir, "new.wsp")
	os.Remove(p)
	db, err := wt.Create(p, archList(cfg.Archs), wt.AggregationMethod(cfg.Method), cfg.XFF)
	if err != nil {
		return nil, err
	}
	if err := db.Sync(); err != nil {
		db.Close()
		return nil, err
	}
	db.Close()
	return os.ReadFile(p)
}

// OpRepresentable: every instant the op names must fit the 32-bit time domain.
func OpRepresentable(op AOp, now int64) bool {
	for _, a := range op.Ages {
		if t := now - a; t <= 0 || t > math.MaxUint32 {
			return false
		}
	}
	return true
}

// NaNVal stands for "not a number" in an operation's value list (operations are stored as JSON, which has no NaN).
const NaNVal = -7.25e300

// OpVal translates an operation's value into the value handed to the library and to the model.
func OpVal(v float64) float64 {
	if v == NaNVal {
		return math.NaN()
	}
	return v
}

// ApplyReal performs one transition with the real library.
func ApplyReal(dir string, cfg ACfg, st AState, op AOp) (obs AObs) {
	vrt.SetPagesize(cfg.Page)
	p := filepath.Join(dir, "f.wsp")
	if err := os.WriteFile(p, st.Bytes, 0644); err != nil {
		obs.OpenErr = "harness: " + err.Error()
		return
	}
	db, err := wt.Open(p)
	if err != nil {
		obs.OpenErr = err.Error()
		return
	}
	defer db.Close()
	now := st.Now
	panicked, txt := fw.Guard(func() {
		var err error
		switch op.Kind {
		case "W1":
			err = db.UpdatePointForArchive(op.Arch, wt.Timestamp(now-op.Ages[0]), wt.Value(OpVal(op.Vals[0])), wt.Timestamp(now))
		case "W1G":
			wt.Now = vrt.Now
			vrt.SetNow(now)
			err = db.Update(wt.Timestamp(now-op.Ages[0]), wt.Value(OpVal(op.Vals[0])))
			vrt.SetNow(0)
		case "WB", "WBG":
			pts := make([]wt.Point, len(op.Ages))
			for i := range pts {
				pts[i] = wt.Point{Time: wt.Timestamp(now - op.Ages[i]), Value: wt.Value(OpVal(op.Vals[i]))}
			}
			if op.Kind == "WB" {
				err = db.UpdatePointsForArchive(pts, op.Arch, wt.Timestamp(now))
			} else {
				wt.Now = vrt.Now
				vrt.SetNow(now)
				err = db.UpdateMany(pts)
				vrt.SetNow(0)
			}
		}
		if err != nil {
			obs.Err = err.Error()
		}
	})
	if panicked {
		vrt.SetNow(0)
		obs.Panic = txt
		return
	}
	if err := db.Sync(); err != nil {
		obs.Err += " sync:" + err.Error()
	}
	db.Close()
	obs.Post, _ = os.ReadFile(p)
	return
}

// AExp is the model's prediction for one transition.
type AExp struct {
	Reject bool // single update must be rejected (nothing changes)
	Rings  []wsp.Ring
	Trace  *model.Trace
}

func ApplyModel(l wsp.Layout, pre []wsp.Ring, now int64, op AOp) AExp {
	rings := wsp.CloneRings(pre)
	tr := model.NewTrace()
	switch op.Kind {
	case "W1", "W1G":
		t := now - op.Ages[0]
		if !model.SingleAccepted(l.Archs, t, now) {
			return AExp{Reject: true, Rings: rings, Trace: tr}
		}
		model.WriteSingle(l, rings, op.Arch, t, OpVal(op.Vals[0]), now, tr)
	case "WB", "WBG":
		pts := make([]model.Pt, len(op.Ages))
		for i := range pts {
			pts[i] = model.Pt{T: now - op.Ages[i], V: OpVal(op.Vals[i])}
		}
		model.WriteBatch(l, rings, pts, op.Arch, now, tr)
	}
	return AExp{Rings: rings, Trace: tr}
}

// Mismatch is one slot where the real post-state differs from the model.
type Mismatch struct {
	Kind  string // direct | propagate | untouched
	Arch  int
	Class uint32
	Want  string
	Got   string
}

func slotStr(s wsp.Slot, ok bool) string {
	if !ok {
		return "empty"
	}
	return fmt.Sprintf("(%d,%v)", s.T, s.V)
}

func sameSlot(a wsp.Slot, aok bool, b wsp.Slot, bok bool) bool {
	if aok != bok {
		return false
	}
	return !aok || (a.T == b.T && math.Float64bits(a.V) == math.Float64bits(b.V))
}

// CompareRings lists every (archive, class) where got differs from want, attributed by the model trace.
func CompareRings(archs []wsp.Arch, pre, want, got []wsp.Ring, tr *model.Trace) []Mismatch {
	var out []Mismatch
	for i, a := range archs {
		for c := uint32(0); c < a.N; c++ {
			w, wok := want[i][c]
			g, gok := got[i][c]
			if sameSlot(w, wok, g, gok) {
				continue
			}
			kind := "untouched"
			switch tr.Last[[2]uint32{uint32(i), c}] {
			case 'd':
				kind = "direct"
			case 'p':
				kind = "propagate"
			}
			out = append(out, Mismatch{Kind: kind, Arch: i, Class: c, Want: slotStr(w, wok), Got: slotStr(g, gok)})
		}
	}
	return out
}

// ---------------------------------------------------------------- window sweep

// Instants returns the instants from which sweep windows are formed.
func Instants(archs []wsp.Arch, now int64, full bool) []int64 {
	rmax := archs[len(archs)-1].Ret()
	set := map[int64]bool{}
	add := func(t int64) {
		if t >= 0 && t <= math.MaxUint32 {
			set[t] = true
		}
	}
	if rmax <= 24 || full {
		for t := now - rmax - 2; t <= now+2; t++ {
			add(t)
		}
	} else {
		for _, a := range archs {
			for d := int64(-2); d <= 2; d++ {
				add(now - a.Ret() + d)
			}
		}
		smax := int64(archs[len(archs)-1].Step)
		for t := now - 2*smax - 2; t <= now+2; t++ {
			add(t)
		}
		for t := now - rmax; t <= now; t += smax {
			add(t)
			add(t - 1)
		}
	}
	var out []int64
	for t := range set {
		out = append(out, t)
	}
	sortInt64(out)
	return out
}

func sortInt64(a []int64) {
	for i := 1; i < len(a); i++ {
		for j := i; j > 0 && a[j] < a[j-1]; j-- {
			a[j], a[j-1] = a[j-1], a[j]
		}
	}
}

type Window struct{ From, Until int64 }

// Windows: all ordered pairs of instants, plus the extreme and the inverted ones.
func Windows(archs []wsp.Arch, now int64, full bool) []Window {
	ins := Instants(archs, now, full)
	var out []Window
	for i, f := range ins {
		for _, u := range ins[i:] {
			out = append(out, Window{f, u})
		}
	}
	for _, f := range []int64{0, 1} {
		for _, u := range ins {
			out = append(out, Window{f, u})
		}
		out = append(out, Window{f, math.MaxUint32}, Window{f, 0})
	}
	out = append(out, Window{now, now - 1}, Window{now + 1, now}, Window{math.MaxUint32, 0}, Window{now - 1, now - 2})
	return out
}

func ArchiveIDs(k int) []int { // best, out-of-range ids, every archive
	ids := []int{-1, -2}
	for i := 0; i < k; i++ {
		ids = append(ids, i)
	}
	return append(ids, k, k+7)
}

// FetchObs is what a real fetch returned.
type FetchObs struct {
	Err, Nil    bool
	Panic       string
	From, Until int64
	Step        int64
	Vals        []float64
	PointsOK    bool // Points() times are from+i*step
}

func RealFetch(db *wt.Whisper, id int, w Window, now int64) (o FetchObs) {
	panicked, txt := fw.Guard(func() {
		ts, err := db.FetchFromArchive(id, wt.Timestamp(w.From), wt.Timestamp(w.Until), wt.Timestamp(now))
		if err != nil {
			o.Err = true
			return
		}
		if ts == nil {
			o.Nil = true
			return
		}
		o.From, o.Until, o.Step = int64(ts.FromTime()), int64(ts.UntilTime()), int64(ts.Step())
		vs := ts.Values()
		o.Vals = make([]float64, len(vs))
		for i, v := range vs {
			o.Vals[i] = float64(v)
		}
		o.PointsOK = true
		pts := ts.Points()
		if len(pts) != len(vs) {
			o.PointsOK = false
		}
		for i, p := range pts {
			if int64(p.Time) != o.From+int64(i)*o.Step || math.Float64bits(float64(p.Value)) != math.Float64bits(o.Vals[i]) {
				o.PointsOK = false
			}
		}
	})
	if panicked {
		o.Panic = txt
	}
	return
}

func ShapeMatches(sh model.Shape, o FetchObs) bool {
	if o.Panic != "" {
		return false
	}
	if sh.Err || o.Err {
		return sh.Err == o.Err
	}
	if sh.Nil || o.Nil {
		return sh.Nil == o.Nil
	}
	return sh.From == o.From && sh.Until == o.Until && sh.Step == o.Step && sh.N == len(o.Vals) && o.PointsOK
}

func valsEqual(a, b []float64) (bool, int) {
	if len(a) != len(b) {
		return false, -1
	}
	for i := range a {
		if math.IsNaN(a[i]) && math.IsNaN(b[i]) {
			continue
		}
		if math.Float64bits(a[i]) != math.Float64bits(b[i]) {
			return false, i
		}
	}
	return true, 0
}

func hexs(b []byte) string { return hex.EncodeToString(b) }

func unhex(s string) []byte {
	b, _ := hex.DecodeString(s)
	return b
}

func methodName(m uint32) string {
	return []string{"?", "average", "sum", "last", "max", "min", "first"}[m]
}

// goTestForTransition renders a plain Go test that replays one transition without the explorer.
func goTestForTransition(cfg ACfg, st AState, op AOp, note string) string {
	var b strings.Builder
	fmt.Fprintf(&b, "// %s\n// layout %s method %s xff %v (page size %d only matters through os.Getpagesize)\n", note, cfg.Spec, methodName(cfg.Method), cfg.XFF, cfg.Page)
	fmt.Fprintf(&b, "func TestReplay(t *testing.T) {\n\tpre, _ := hex.DecodeString(%q)\n\tp := filepath.Join(t.TempDir(), \"f.wsp\")\n\tos.WriteFile(p, pre, 0644)\n\tdb, err := whispertool.Open(p)\n\tif err != nil { t.Fatal(err) }\n\tdefer db.Close()\n\tnow := whispertool.Timestamp(%d)\n", hexs(st.Bytes), st.Now)
	switch op.Kind {
	case "W1", "W1G":
		fmt.Fprintf(&b, "\terr = db.UpdatePointForArchive(%d, now-%d, %v, now)\n", op.Arch, op.Ages[0], op.Vals[0])
	case "WB", "WBG":
		fmt.Fprintf(&b, "\tpts := []whispertool.Point{")
		for i := range op.Ages {
			fmt.Fprintf(&b, "{Time: now-%d, Value: %v}, ", op.Ages[i], op.Vals[i])
		}
		fmt.Fprintf(&b, "}\n\terr = db.UpdatePointsForArchive(pts, %d, now)\n", op.Arch)
	}
	fmt.Fprintf(&b, "\tt.Log(err)\n\tfor id := range db.ArchiveInfoList() { pts, _ := db.GetAllRawUnsortedPoints(id); t.Log(id, pts) }\n}\n")
	return b.String()
}

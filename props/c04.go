package props

import (
	"encoding/json"
	"fmt"
	"os"
	"path/filepath"

	wt "github.com/hnakamur/whispertool"

	"verif/fw"
	"verif/model"
	"verif/vrt"
	"verif/wsp"
)

// C04 - fetch window contract.  Complete product of layouts x three content
// classes x clocks x archive ids x windows; the oracle is model.FetchShape,
// written from the statement, plus content independence (no reference needed).

type c04Case struct {
	Cfg     ACfg   `json:"cfg"`
	Content string `json:"content"` // never | finest | all
	Bytes   string `json:"bytes_hex"`
	Now     int64  `json:"now"`
	ID      int    `json:"archive_id"`
	From    int64  `json:"from"`
	Until   int64  `json:"until"`
}

func init() {
	fw.Register(&fw.Prop{
		ID: "C04", Level: "model_checking", Run: runC04, Replay: replayC04,
		Rule: "states = (layout, page size, content class, clock); transitions = FetchFromArchive calls, one per (state, archive id, window) of the complete sweep; each is compared with the shape function written from the statement, and the three content classes of a (layout, clock) must give identical shapes. traces_validated_against_impl = fetches whose shape equalled the model's.",
		Assumptions: []string{"model.FetchShape encodes the statement", "clocks with now < max retention or within one step of 2^32 are outside the property's domain",
			"'wholly in the future' is read as from > now"},
		NeedsInstr: []string{"whispertool:os.Getpagesize"},
	})
}

func c04Contents(c *fw.Ctx, cfg ACfg, now int64) map[string][]byte {
	out := map[string][]byte{}
	fresh, err := CreateFile(c.Dir, cfg)
	if err != nil {
		c.Inconclusive("Create failed for " + cfg.Spec + ": " + err.Error())
		return nil
	}
	out["never"] = fresh
	o := ApplyReal(c.Dir, cfg, AState{Bytes: fresh, Now: now}, AOp{Kind: "W1", Arch: 0, Ages: []int64{0}, Vals: []float64{1}})
	if o.Post == nil {
		c.Inconclusive("could not build content class 'finest' for " + cfg.Spec)
		return nil
	}
	out["finest"] = o.Post
	cur := o.Post
	for a := 1; a < len(cfg.Archs); a++ {
		o = ApplyReal(c.Dir, cfg, AState{Bytes: cur, Now: now}, AOp{Kind: "W1", Arch: a, Ages: []int64{0}, Vals: []float64{4}})
		if o.Post == nil {
			c.Inconclusive("could not build content class 'all' for " + cfg.Spec)
			return nil
		}
		cur = o.Post
	}
	out["all"] = cur
	return out
}

func windowKind(archs []wsp.Arch, sh model.Shape, w Window, now int64) string {
	switch {
	case w.From > w.Until:
		return "inverted"
	case sh.Err:
		return "id-out-of-range"
	case w.From > now:
		return "future"
	case sh.Nil:
		return "before-retention"
	}
	a := archs[sh.Archive]
	f, u := w.From, w.Until
	if f < now-a.Ret() {
		f = now - a.Ret()
	}
	if u > now {
		u = now
	}
	s := int64(a.Step)
	if f-f%s == u-u%s {
		return "degenerate"
	}
	return "plain"
}

func idKind(id, k int) string {
	switch {
	case id == -1:
		return "best"
	case id < 0 || id >= k:
		return "out-of-range"
	}
	return "explicit"
}

func era(now int64) string {
	if now >= 1<<31 {
		return "post2038"
	}
	return "pre2038"
}

func c04Eval(c *fw.Ctx, kase c04Case, db *wt.Whisper) (sig, desc string, obs FetchObs) {
	cfg := kase.Cfg
	w := Window{kase.From, kase.Until}
	sh := model.FetchShape(cfg.Archs, kase.ID, w.From, w.Until, kase.Now)
	obs = RealFetch(db, kase.ID, w, kase.Now)
	if ShapeMatches(sh, obs) {
		return "", "", obs
	}
	clause := "bounds"
	switch {
	case obs.Panic != "":
		clause = "panic"
	case sh.Err != obs.Err:
		clause = "error"
	case sh.Nil != obs.Nil:
		clause = "nil"
	case !sh.Err && !sh.Nil && sh.From == obs.From && sh.Until == obs.Until && sh.Step == obs.Step && sh.N != len(obs.Vals):
		clause = "count"
	case !sh.Err && !sh.Nil && sh.Step != obs.Step:
		clause = "archive-choice"
	case !sh.Err && !sh.Nil && !obs.PointsOK && sh.N == len(obs.Vals):
		clause = "points"
	}
	sig = fmt.Sprintf("C04/%s/%s+%s+%s+%s", clause, kase.Content, idKind(kase.ID, len(cfg.Archs)), windowKind(cfg.Archs, sh, w, kase.Now), era(kase.Now))
	desc = fmt.Sprintf("layout %s content=%s now=%d FetchFromArchive(id=%d, from=%d, until=%d): model %+v, got err=%v nil=%v from=%d until=%d step=%d n=%d pointsOK=%v %s",
		cfg.Spec, kase.Content, kase.Now, kase.ID, w.From, w.Until, sh, obs.Err, obs.Nil, obs.From, obs.Until, obs.Step, len(obs.Vals), obs.PointsOK, obs.Panic)
	return
}

// c04Wrapper calls Whisper.Fetch with the library's clock variable set to the case's instant and compares the
// outcome with what FetchFromArchive(best) just returned for the same window.
func c04Wrapper(cfg ACfg, k c04Case, db *wt.Whisper, ref FetchObs, refN int) (sig, desc string) {
	wt.Now = vrt.Now
	vrt.SetNow(k.Now)
	defer vrt.SetNow(0)
	var o FetchObs
	n := 0
	panicked, txt := fw.Guard(func() {
		ts, err := db.Fetch(wt.Timestamp(k.From), wt.Timestamp(k.Until))
		switch {
		case err != nil:
			o.Err = true
		case ts == nil:
			o.Nil = true
		default:
			o.From, o.Until, o.Step = int64(ts.FromTime()), int64(ts.UntilTime()), int64(ts.Step())
			n = len(ts.Values())
		}
	})
	if panicked {
		return "C04/wrapper/panic", fmt.Sprintf("layout %s now=%d Fetch(%d, %d) panicked: %s", cfg.Spec, k.Now, k.From, k.Until, firstLine(txt))
	}
	if o.Err != ref.Err || o.Nil != ref.Nil || o.From != ref.From || o.Until != ref.Until || o.Step != ref.Step || n != refN {
		return "C04/wrapper/differs-from-best-archive-fetch", fmt.Sprintf("layout %s content=%s clock=%d: Fetch(from=%d, until=%d) gives err=%v nil=%v [%d,%d) step %d n=%d, FetchFromArchive(best, ..., now=%d) gives err=%v nil=%v [%d,%d) step %d n=%d",
			cfg.Spec, k.Content, k.Now, k.From, k.Until, o.Err, o.Nil, o.From, o.Until, o.Step, n, k.Now, ref.Err, ref.Nil, ref.From, ref.Until, ref.Step, refN)
	}
	return "", ""
}

func runC04(c *fw.Ctx) {
	layouts := append([]LayoutDef{}, CoreLayouts...)
	layouts = append(layouts, LP, LayoutByTag("L11"))
	eras := []string{"mid", "high", "low"}
	ncore := len(layouts)
	if c.Thorough() {
		layouts = append(layouts, AllSmallLayouts()...)
	} else {
		for _, ld := range AllSmallLayouts() { // quick: every one- and two-level small layout on three clocks of today's era
			if len(ld.Archs) <= 2 {
				layouts = append(layouts, ld)
			}
		}
	}
	c.R.Bounds["layouts"] = fmt.Sprintf("%d core (all eras, 3 page sizes) + %d further small layouts (quick: k<=2 on 3 clocks; thorough: all 3405 on 6 clocks x 3 eras)", ncore, len(layouts)-ncore)
	c.R.Bounds["eras"] = "mid(1.7e9) high(2^31+1e6) low(Rmax+P)"
	c.R.Bounds["windows"] = "all pairs of instants in [now-Rmax-2, now+2] (boundary instants when Rmax>24) + from in {0,1} + until in {0,2^32-1} + inverted"
	for li, ld := range layouts {
		full := c.Thorough() && li < len(CoreLayouts)
		clocks := Clocks(ld.Archs, c.Thorough() && li < len(CoreLayouts)+1, eras) // (full phase sets for the core layouts and LP)
		if !c.Thorough() && li >= ncore {
			m := Clocks(ld.Archs, false, []string{"mid"})
			clocks = []int64{m[0], m[len(m)/2], m[len(m)-1]}
		}
		for _, now := range clocks {
			if !c.Mine() {
				continue
			}
			if c.Expired() {
				return
			}
			pages := []int{4096}
			if now == clocks[0] {
				pages = []int{4096, 16, 20}
			}
			for _, page := range pages {
				cfg := ACfg{Tag: ld.Tag, Spec: ld.Spec, Archs: ld.Archs, Method: 2, XFF: 1, Page: page}
				contents := c04Contents(c, cfg, now)
				if contents == nil {
					continue
				}
				wins := Windows(cfg.Archs, now, full)
				ids := ArchiveIDs(len(cfg.Archs))
				shapes := map[string][]FetchObs{}
				for _, cn := range []string{"never", "finest", "all"} {
					vrt.SetPagesize(page)
					p := filepath.Join(c.Dir, "c04.wsp")
					os.WriteFile(p, contents[cn], 0644)
					db, err := wt.Open(p)
					if err != nil {
						c.Inconclusive("Open failed on a file written by the library: " + err.Error())
						continue
					}
					c.Count("states", 1)
					for _, id := range ids {
						for _, w := range wins {
							kase := c04Case{Cfg: cfg, Content: cn, Now: now, ID: id, From: w.From, Until: w.Until}
							sig, desc, obs := c04Eval(c, kase, db)
							c.Count("transitions", 1)
							nvals := len(obs.Vals)
							obs.Vals = nil
							shapes[cn] = append(shapes[cn], obs)
							if sig == "" && id == -1 {
								// the clock-reading wrapper Fetch(from, until) is FetchFromArchive(best, from, until, <clock>): same shape
								sig, desc = c04Wrapper(cfg, kase, db, obs, nvals)
								c.Count("wrapper_fetches", 1)
							}
							if sig == "" {
								c.Count("traces_validated_against_impl", 1)
								sh := model.FetchShape(cfg.Archs, id, w.From, w.Until, now)
								k := windowKind(cfg.Archs, sh, w, now) + "/" + idKind(id, len(cfg.Archs))
								c.Outcome(k)
								continue
							}
							kase.Bytes = hexs(contents[cn])
							c.Violate(sig, desc, len(cfg.Archs)*100+int(w.Until-w.From), kase, "")
						}
					}
					db.Close()
				}
				// content independence, reference-free
				for _, cn := range []string{"finest", "all"} {
					a, b := shapes["never"], shapes[cn]
					for i := range a {
						if i >= len(b) {
							break
						}
						if a[i].Err != b[i].Err || a[i].Nil != b[i].Nil || a[i].From != b[i].From || a[i].Until != b[i].Until || a[i].Step != b[i].Step || (a[i].Panic != "") != (b[i].Panic != "") {
							id := ids[i/len(wins)]
							w := wins[i%len(wins)]
							sh := model.FetchShape(cfg.Archs, id, w.From, w.Until, now)
							sig := fmt.Sprintf("C04/content-dependence/%s+%s+%s", idKind(id, len(cfg.Archs)), windowKind(cfg.Archs, sh, w, now), era(now))
							c.Violate(sig, fmt.Sprintf("layout %s now=%d id=%d window [%d,%d]: shape differs between never-written and %s content: %+v vs %+v", cfg.Spec, now, id, w.From, w.Until, cn, a[i], b[i]),
								1000, c04Case{Cfg: cfg, Content: cn, Bytes: hexs(contents[cn]), Now: now, ID: id, From: w.From, Until: w.Until}, "")
						}
						c.Count("content_independence_comparisons", 1)
					}
				}
				if len(c.R.Samples) < 3 {
					c.Sample(3, map[string]any{"layout": cfg.Spec, "page": page, "now": now, "windows": len(wins), "ids": ids, "first_window": wins[0]})
				}
			}
		}
	}
}

func replayC04(c *fw.Ctx, raw json.RawMessage) (bool, string) {
	var k c04Case
	if err := json.Unmarshal(raw, &k); err != nil {
		return false, err.Error()
	}
	k.Cfg.Archs = wsp.ParseLayout(k.Cfg.Spec)
	vrt.SetPagesize(k.Cfg.Page)
	p := filepath.Join(c.Dir, "r.wsp")
	os.WriteFile(p, unhex(k.Bytes), 0644)
	db, err := wt.Open(p)
	if err != nil {
		return false, "open: " + err.Error()
	}
	defer db.Close()
	sig, desc, obs := c04Eval(c, k, db)
	if sig == "" && k.ID == -1 {
		sig, desc = c04Wrapper(k.Cfg, k, db, obs, len(obs.Vals))
	}
	return sig != "", desc
}

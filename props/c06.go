package props

import (
	"bytes"
	"encoding/json"
	"fmt"
	"math"
	"os"
	"path/filepath"
	"time"

	gw "github.com/go-graphite/go-whisper"
	wt "github.com/hnakamur/whispertool"

	"verif/fw"
	"verif/model"
	"verif/vrt"
	"verif/wsp"
)

// C06 - on-disk format and interoperation.  (a) every state reached by an
// engine-A exploration (whispertool as writer) is decoded by the independent
// strict parser; (b) go-whisper reads the very same bytes: metadata and every
// non-degenerate window must agree with whispertool's own reads; (c) the same
// exploration with go-whisper as the transition function, both readers on
// every reached state.

type c06Case struct {
	Kind   string `json:"kind"` // xread
	Cfg    ACfg   `json:"cfg"`
	Bytes  string `json:"bytes_hex"`
	Now    int64  `json:"now"`
	From   int64  `json:"from"`
	Until  int64  `json:"until"`
	Writer string `json:"writer"`
}

func init() {
	fw.Register(&fw.Prop{
		ID: "C06", Level: "model_checking", Run: runC06, Replay: replayC06,
		Rule:        "states = distinct (file bytes, clock) reached with whispertool resp. go-whisper as the transition function; transitions = writer operations, each post-state decoded by the strict classic-format parser; traces_validated_against_impl = cross-reads (go-whisper metadata + Fetch vs whispertool metadata + Fetch on the same bytes) that agreed.",
		Assumptions: []string{"wsp.Parse encodes the classic Whisper layout", "go-whisper (pinned in go.sum) is the reference reader; its clock seam `Now` is set to the state's clock", "degenerate windows are excluded (the statement says non-degenerate)"},
		NeedsInstr:  []string{"whispertool:os.Getpagesize"},
	})
}

func c06FormatJudge(t *Trans) (string, string) {
	if t.Obs.OpenErr != "" {
		return "C06/reopen-failed", fmt.Sprintf("layout %s: whispertool cannot reopen a file it wrote: %s", t.Cfg.Spec, t.Obs.OpenErr)
	}
	if t.Obs.Post == nil || t.Obs.Panic != "" {
		return "", ""
	}
	ctx := fmt.Sprintf("layout %s method=%s xff=%v now=%d %s", t.Cfg.Spec, methodName(t.Cfg.Method), t.Cfg.XFF, t.Pre.Now, t.Op)
	if t.PostFile == nil {
		return "C06/format/layout", ctx + ": file is not a classic whisper file: " + t.PostErr
	}
	if t.Post == nil {
		return "C06/format/slot-placement", ctx + ": " + t.PostErr
	}
	hdr := t.Cfg.Layout().EncodeHeader()
	if !bytes.Equal(t.Obs.Post[:len(hdr)], hdr) {
		return "C06/format/header-bytes", fmt.Sprintf("%s: header bytes %x, classic encoding of the layout is %x", ctx, t.Obs.Post[:len(hdr)], hdr)
	}
	if int64(len(t.Obs.Post)) != t.Cfg.Layout().FileSize() {
		return "C06/format/length", fmt.Sprintf("%s: file length %d, want %d", ctx, len(t.Obs.Post), t.Cfg.Layout().FileSize())
	}
	return "", ""
}

// c06Meta compares the metadata both readers report for the same file.
func c06Meta(cfg ACfg, g *gw.Whisper, w *wt.Whisper) string {
	l := cfg.Layout()
	if int(g.AggregationMethod()) != int(w.AggregationMethod()) || int(w.AggregationMethod()) != int(cfg.Method) {
		return fmt.Sprintf("aggregation method: go-whisper %d, whispertool %d, layout %d", g.AggregationMethod(), w.AggregationMethod(), cfg.Method)
	}
	if int64(g.MaxRetention()) != int64(w.MaxRetention()) || int64(w.MaxRetention()) != l.MaxRet() {
		return fmt.Sprintf("max retention: go-whisper %d, whispertool %d, layout %d", g.MaxRetention(), w.MaxRetention(), l.MaxRet())
	}
	if math.Float32bits(g.XFilesFactor()) != math.Float32bits(w.XFilesFactor()) || math.Float32bits(w.XFilesFactor()) != math.Float32bits(cfg.XFF) {
		return fmt.Sprintf("xFilesFactor: go-whisper %v, whispertool %v, layout %v", g.XFilesFactor(), w.XFilesFactor(), cfg.XFF)
	}
	gr := g.Retentions()
	wr := w.ArchiveInfoList()
	if len(gr) != len(wr) || len(wr) != len(cfg.Archs) {
		return "archive count differs"
	}
	for i := range gr {
		if gr[i].SecondsPerPoint() != int(wr[i].SecondsPerPoint()) || gr[i].NumberOfPoints() != int(wr[i].NumberOfPoints()) ||
			uint32(gr[i].SecondsPerPoint()) != cfg.Archs[i].Step || uint32(gr[i].NumberOfPoints()) != cfg.Archs[i].N {
			return fmt.Sprintf("archive %d: go-whisper %d x %d, whispertool %d x %d", i, gr[i].SecondsPerPoint(), gr[i].NumberOfPoints(), wr[i].SecondsPerPoint(), wr[i].NumberOfPoints())
		}
	}
	return ""
}

func c06Fetch(g *gw.Whisper, w *wt.Whisper, win Window, now int64) string {
	gw.Now = func() time.Time { return time.Unix(now, 0) }
	wt.Now = func() time.Time { return time.Unix(now, 0) }
	var gts *gw.TimeSeries
	var gerr error
	if p, txt := fw.Guard(func() { gts, gerr = g.Fetch(int(win.From), int(win.Until)) }); p {
		_ = txt
		return "" // the reference reader itself failed: no verdict
	}
	var wts *wt.TimeSeries
	var werr error
	if p, txt := fw.Guard(func() { wts, werr = w.Fetch(wt.Timestamp(win.From), wt.Timestamp(win.Until)) }); p {
		return "whispertool Fetch panicked: " + firstLine(txt)
	}
	if (gerr != nil) != (werr != nil) {
		return fmt.Sprintf("error: go-whisper %v, whispertool %v", gerr, werr)
	}
	if gerr != nil {
		return ""
	}
	if (gts == nil) != (wts == nil) {
		return fmt.Sprintf("series present: go-whisper %v, whispertool %v", gts != nil, wts != nil)
	}
	if gts == nil {
		return ""
	}
	if gts.FromTime() != int(wts.FromTime()) || gts.UntilTime() != int(wts.UntilTime()) || gts.Step() != int(wts.Step()) {
		return fmt.Sprintf("go-whisper (from %d until %d step %d), whispertool (from %d until %d step %d)", gts.FromTime(), gts.UntilTime(), gts.Step(), wts.FromTime(), wts.UntilTime(), wts.Step())
	}
	gv := gts.Values()
	wv := make([]float64, len(wts.Values()))
	for i, v := range wts.Values() {
		wv[i] = float64(v)
	}
	if ok, i := valsEqual(gv, wv); !ok {
		if i < 0 {
			return fmt.Sprintf("value count: go-whisper %d, whispertool %d", len(gv), len(wv))
		}
		return fmt.Sprintf("value %d: go-whisper %v, whispertool %v", i, gv[i], wv[i])
	}
	return ""
}

// c06Gen: C01's generator plus a batch with a future-dated point (a sender with a fast clock): the slot then
// holds an interval newer than the one a reader expects there.
func c06Gen(archs []wsp.Arch) func(AState, int) []AOp {
	g := c01Gen(archs)
	return func(st AState, d int) []AOp {
		ops := g(st, d)
		if r0 := archs[0].Ret(); r0 > 1 {
			ops = append(ops, AOp{Kind: "WB", Arch: 0, Ages: []int64{1, -(r0 - 1)}, Vals: []float64{1, 4}})
		}
		return ops
	}
}

// c06CrossRead opens the same bytes with both libraries and compares metadata and all plain windows.
func c06CrossRead(c *fw.Ctx, cfg ACfg, st AState, writer string, full bool) {
	vrt.SetPagesize(cfg.Page)
	p := filepath.Join(c.Dir, "x.wsp")
	os.WriteFile(p, st.Bytes, 0644)
	g, gerr := gw.Open(p)
	w, werr := wt.Open(p)
	if gerr != nil || werr != nil {
		if g != nil {
			g.Close()
		}
		if w != nil {
			w.Close()
		}
		if (gerr != nil) != (werr != nil) {
			c.Violate("C06/xread/open/"+writer, fmt.Sprintf("layout %s file written by %s: go-whisper Open: %v, whispertool Open: %v", cfg.Spec, writer, gerr, werr), len(st.Bytes),
				c06Case{Kind: "xread", Cfg: cfg, Bytes: hexs(st.Bytes), Now: st.Now, Writer: writer}, "")
		}
		return
	}
	defer g.Close()
	defer w.Close()
	c.Count("cross_read_states", 1)
	if msg := c06Meta(cfg, g, w); msg != "" {
		c.Violate("C06/xread/metadata/"+writer, fmt.Sprintf("layout %s file written by %s: %s", cfg.Spec, writer, msg), len(st.Bytes), c06Case{Kind: "xread", Cfg: cfg, Bytes: hexs(st.Bytes), Now: st.Now, Writer: writer}, "")
		return
	}
	for _, win := range Windows(cfg.Archs, st.Now, full) {
		sh := model.FetchShape(cfg.Archs, -1, win.From, win.Until, st.Now)
		if windowKind(cfg.Archs, sh, win, st.Now) != "plain" {
			continue
		}
		c.Count("cross_reads", 1)
		if msg := c06Fetch(g, w, win, st.Now); msg != "" {
			c.Violate("C06/xread/fetch/"+writer, fmt.Sprintf("layout %s file written by %s, now=%d Fetch(%d,%d): %s", cfg.Spec, writer, st.Now, win.From, win.Until, msg), len(st.Bytes)*10+int(win.Until-win.From),
				c06Case{Kind: "xread", Cfg: cfg, Bytes: hexs(st.Bytes), Now: st.Now, From: win.From, Until: win.Until, Writer: writer}, "")
		} else {
			c.Count("traces_validated_against_impl", 1)
		}
	}
}

// c06Reverse explores with go-whisper as the writer.
func c06Reverse(c *fw.Ctx, cfg ACfg, now0 int64, depth, maxStates int) {
	p := filepath.Join(c.Dir, "g.wsp")
	os.Remove(p)
	var rets gw.Retentions
	for _, a := range cfg.Archs {
		r := gw.NewRetention(int(a.Step), int(a.N))
		rets = append(rets, &r)
	}
	gw.Now = func() time.Time { return time.Unix(now0, 0) }
	g, err := gw.Create(p, rets, gw.AggregationMethod(cfg.Method), cfg.XFF)
	if err != nil {
		c.Inconclusive("go-whisper Create failed: " + err.Error())
		return
	}
	g.Close()
	b0, _ := os.ReadFile(p)
	type gst struct {
		st AState
	}
	seen := map[string]bool{}
	frontier := []AState{{Bytes: b0, Now: now0}}
	seen[frontier[0].Key()] = true
	all := append([]AState{}, frontier...)
	rmax := cfg.Archs[len(cfg.Archs)-1].Ret()
	r0 := cfg.Archs[0].Ret()
	ages := dedupAges([]int64{0, 1, r0 - 1, r0, rmax - 1}, 0, rmax)
	for d := 0; d < depth; d++ {
		var next []AState
		for _, st := range frontier {
			type gop struct {
				kind string
				age  int64
				d    int64
			}
			var ops []gop
			for _, a := range ages {
				ops = append(ops, gop{"U", a, 0})
			}
			ops = append(ops, gop{"UM", 0, 0}, gop{"UMF", 0, 0}, gop{"ADV", 0, 1}, gop{"ADV", 0, int64(cfg.Archs[len(cfg.Archs)-1].Step)}, gop{"ADV", 0, r0})
			for _, op := range ops {
				if len(all)+len(next) >= maxStates {
					break
				}
				var ns AState
				if op.kind == "ADV" {
					ns = AState{Bytes: st.Bytes, Now: st.Now + op.d}
				} else {
					os.WriteFile(p, st.Bytes, 0644)
					gw.Now = func() time.Time { return time.Unix(st.Now, 0) }
					g, err := gw.Open(p)
					if err != nil {
						continue
					}
					v := Vals[d%3]
					if op.kind == "U" {
						g.Update(v, int(st.Now-op.age))
					} else if op.kind == "UMF" {
						g.UpdateMany([]*gw.TimeSeriesPoint{{Time: int(st.Now - 1), Value: 1}, {Time: int(st.Now + r0 - 1), Value: 4}})
					} else {
						var pts []*gw.TimeSeriesPoint
						for age := r0 - 1; age >= 0; age -= int64(cfg.Archs[0].Step) {
							pts = append(pts, &gw.TimeSeriesPoint{Time: int(st.Now - age), Value: Vals[int(age)%3]})
						}
						g.UpdateMany(pts)
					}
					g.Close()
					nb, _ := os.ReadFile(p)
					ns = AState{Bytes: nb, Now: st.Now}
					c.Count("transitions", 1)
				}
				if seen[ns.Key()] {
					continue
				}
				seen[ns.Key()] = true
				next = append(next, ns)
			}
		}
		all = append(all, next...)
		frontier = next
	}
	for _, st := range all {
		c.Count("states", 1)
		if _, err := wsp.Parse(st.Bytes); err != nil {
			c.Inconclusive("the independent parser rejects a go-whisper file (trusted-base disagreement): " + err.Error())
			continue
		}
		c06CrossRead(c, cfg, st, "go-whisper", false)
	}
}

func runC06(c *fw.Ctx) {
	var layouts []LayoutDef
	layouts = append(layouts, CoreLayouts...)
	layouts = append(layouts, LayoutByTag("L11")) // steps with prime factors other than 2 and 3
	depth, maxCore := 3, 200
	if c.Thorough() {
		depth, maxCore = 4, 600
		layouts = append(layouts, ThoroughExtraLayouts()...)
	}
	c.R.Bounds["layouts"] = fmt.Sprint(len(layouts)) + " (+LP with whispertool as writer)"
	c.R.Bounds["methods_xff"] = "6 methods x xff {0, 0.5}"
	c.R.Bounds["history"] = fmt.Sprintf("generator depth %d, <=%d core states per config and writer", depth, maxCore)
	type mx struct {
		m   uint32
		xff float32
	}
	for li, ld := range layouts {
		clocks := Clocks(ld.Archs, false, []string{"mid"})
		clocks = []int64{clocks[0], clocks[len(clocks)-1]}
		if li < len(CoreLayouts)+1 {
			lo, hi := Clocks(ld.Archs, false, []string{"low"}), Clocks(ld.Archs, false, []string{"high"})
			clocks = append(clocks, lo[len(lo)-1], hi[0])
		}
		for mi, m := range []mx{{2, 0}, {1, 0.5}, {3, 0}, {4, 0.5}, {5, 0}, {6, 0.5}} {
			for ci, now := range clocks {
				if !c.Mine() {
					continue
				}
				if c.Expired() {
					return
				}
				if now >= 1<<31 {
					// go-whisper's own arithmetic is int-based and fine, keep
				}
				page := 4096
				if ci == 0 && mi == 0 {
					page = 20
				}
				cfg := ACfg{Tag: ld.Tag, Spec: ld.Spec, Archs: ld.Archs, Method: m.m, XFF: m.xff, Page: page}
				e := &Explorer{C: c, Cfg: cfg, Now0: now, Depth: depth, Gen: c06Gen(cfg.Archs), Judge: c06FormatJudge, MaxCore: maxCore}
				if li >= len(CoreLayouts)+1 {
					e.Depth, e.MaxCore = 3, 60
				}
				e.OnCore = func(st AState, rings []wsp.Ring) { c06CrossRead(c, cfg, st, "whispertool", false) }
				e.Run()
				c06Reverse(c, cfg, now, e.Depth, e.MaxCore)
			}
		}
	}
	if c.Shard == 0 {
		c06CreateOver(c)
		c06NamedMethods(c)
		now := Clocks(LP.Archs, false, []string{"mid"})[0]
		cfg := ACfg{Tag: LP.Tag, Spec: LP.Spec, Archs: LP.Archs, Method: 2, XFF: 0, Page: 4096}
		e := &Explorer{C: c, Cfg: cfg, Now0: now, Depth: 2, Gen: c01Gen(cfg.Archs), Judge: c06FormatJudge, MaxCore: 12}
		e.OnCore = func(st AState, rings []wsp.Ring) { c06CrossRead(c, cfg, st, "whispertool", false) }
		e.Run()
		c.Sample(3, map[string]any{"layout": cfg.Spec, "writer": "whispertool then go-whisper", "readers": "wsp.Parse, go-whisper Open/Fetch, whispertool Open/Fetch", "now0": now})
	}
}

func replayC06(c *fw.Ctx, raw json.RawMessage) (bool, string) {
	var probe struct {
		Kind string `json:"kind"`
	}
	json.Unmarshal(raw, &probe)
	if probe.Kind == "" {
		return ReplayTransition(c, raw, c06FormatJudge)
	}
	var k c06Case
	json.Unmarshal(raw, &k)
	if k.Kind == "create-over" {
		c2 := &fw.Ctx{Prop: c.Prop, Tier: "quick", Of: 1, Dir: c.Dir, Deadline: c.Deadline, R: fw.NewResult()}
		c06CreateOver(c2)
		for _, v := range c2.R.Violations {
			return true, v.Desc
		}
		return false, "Create over existing files leaves exact-length files"
	}
	if k.Kind == "named-methods" {
		c2 := &fw.Ctx{Prop: c.Prop, Tier: "quick", Of: 1, Dir: c.Dir, Deadline: c.Deadline, R: fw.NewResult()}
		c06NamedMethods(c2)
		for _, v := range c2.R.Violations {
			return true, v.Desc
		}
		return false, "every named method is stored under its classic code"
	}
	k.Cfg.Archs = wsp.ParseLayout(k.Cfg.Spec)
	vrt.SetPagesize(k.Cfg.Page)
	p := filepath.Join(c.Dir, "x.wsp")
	os.WriteFile(p, unhex(k.Bytes), 0644)
	g, gerr := gw.Open(p)
	w, werr := wt.Open(p)
	if gerr != nil || werr != nil {
		return (gerr != nil) != (werr != nil), fmt.Sprintf("open: %v / %v", gerr, werr)
	}
	defer g.Close()
	defer w.Close()
	if msg := c06Meta(k.Cfg, g, w); msg != "" {
		return true, msg
	}
	if k.From == 0 && k.Until == 0 {
		return false, "metadata agrees"
	}
	msg := c06Fetch(g, w, Window{k.From, k.Until}, k.Now)
	return msg != "", msg
}

// c06CreateOver: Create with caller-supplied open flags over an existing file that is larger, smaller or equal
// in size: after Sync the file must still be exactly header + 12 x points long and parse as a classic file.
// c06NamedMethods: the number stored in the aggregation field is the classic one for the method of that NAME - by the
// library's named constant, by its name parser and as go-whisper names it - in both directions.
func c06NamedMethods(c *fw.Ctx) {
	type nm struct {
		name string
		code uint32
		wtc  wt.AggregationMethod
		gwc  gw.AggregationMethod
	}
	names := []nm{{"average", 1, wt.Average, gw.Average}, {"sum", 2, wt.Sum, gw.Sum}, {"last", 3, wt.Last, gw.Last},
		{"max", 4, wt.Max, gw.Max}, {"min", 5, wt.Min, gw.Min}, {"first", 6, wt.First, gw.First}}
	ld := LayoutByTag("L5")
	vrt.SetPagesize(4096)
	bad := func(desc string, n nm) {
		c.Violate("C06/format/aggregation-code-of-named-method", desc, int(n.code), c06Case{Kind: "named-methods"}, "")
	}
	for _, n := range names {
		c.Count("transitions", 1)
		p := filepath.Join(c.Dir, "named.wsp")
		os.Remove(p)
		parsed, perr := wt.AggregationMethodString(n.name)
		if perr != nil || parsed != n.wtc || n.wtc.String() != n.name {
			bad(fmt.Sprintf("method name %q parses to %v (%v); the constant prints as %q", n.name, parsed, perr, n.wtc.String()), n)
			continue
		}
		db, err := wt.Create(p, archList(ld.Archs), n.wtc, 0.5)
		if err != nil {
			continue
		}
		db.Sync()
		db.Close()
		b, _ := os.ReadFile(p)
		if len(b) < 4 || uint32(b[3]) != n.code || b[0]|b[1]|b[2] != 0 {
			bad(fmt.Sprintf("a file created with method %s stores aggregation code %x, classic whisper uses %d", n.name, b[:4], n.code), n)
			continue
		}
		if g, err := gw.Open(p); err != nil || g.AggregationMethod() != n.gwc {
			bad(fmt.Sprintf("go-whisper reads a file created with method %s as %v (%v)", n.name, g.AggregationMethod(), err), n)
			if g != nil {
				g.Close()
			}
			continue
		} else {
			g.Close()
		}
		// the other direction: written by go-whisper under that name
		os.Remove(p)
		rets, _ := gw.ParseRetentionDefs(ld.Spec)
		g, err := gw.Create(p, rets, n.gwc, 0.5)
		if err != nil {
			continue
		}
		g.Close()
		w, err := wt.Open(p)
		if err != nil || w.AggregationMethod() != n.wtc || w.AggregationMethod().String() != n.name {
			bad(fmt.Sprintf("whispertool reads a %s file written by go-whisper as %v (%v)", n.name, w.AggregationMethod(), err), n)
		}
		if w != nil {
			w.Close()
		}
		c.Count("traces_validated_against_impl", 1)
	}
}

func c06CreateOver(c *fw.Ctx) {
	for _, tag := range []string{"L2", "L5", "L9"} {
		ld := LayoutByTag(tag)
		l := wsp.Layout{Archs: ld.Archs, Method: 2, XFF: 0.5}
		want := l.FileSize()
		for _, pre := range []int64{0, 1, want - 1, want, want + 1, want + 1500, 3 * want} {
			for _, flags := range []int{os.O_RDWR | os.O_CREATE, os.O_RDWR | os.O_CREATE | os.O_TRUNC} {
				p := filepath.Join(c.Dir, "over.wsp")
				junk := bytes.Repeat([]byte{0xab}, int(pre))
				os.WriteFile(p, junk, 0644)
				vrt.SetPagesize(4096)
				db, err := wt.Create(p, archList(l.Archs), wt.Sum, 0.5, wt.WithOpenFileFlag(flags))
				c.Count("transitions", 1)
				if err != nil {
					continue
				}
				db.UpdatePointForArchive(0, wt.Timestamp(1700000000), 1, wt.Timestamp(1700000000))
				serr := db.Sync()
				db.Close()
				b, _ := os.ReadFile(p)
				if serr != nil {
					continue
				}
				if int64(len(b)) != want {
					c.Violate("C06/format/length/create-over-existing-file", fmt.Sprintf("layout %s: Create (open flags %#x) over an existing %d-byte file leaves %d bytes, the layout needs exactly %d", ld.Spec, flags, pre, len(b), want), int(pre), c06Case{Kind: "create-over"}, "")
					continue
				}
				if _, err := wsp.Parse(b[:want]); err != nil && pre <= want {
					c.Violate("C06/format/layout/create-over-existing-file", fmt.Sprintf("layout %s: Create over an existing %d-byte file: %v", ld.Spec, pre, err), int(pre), c06Case{Kind: "create-over"}, "")
				}
			}
		}
	}
}

package props

import (
	"bufio"
	"bytes"
	"encoding/binary"
	"encoding/json"
	"fmt"
	"io"
	"math"
	"net"
	"net/http"
	"os"
	"os/exec"
	"path/filepath"
	"regexp"
	"runtime"
	"strconv"
	"strings"
	"sync/atomic"
	"time"

	wt "github.com/hnakamur/whispertool"
	wcmd "github.com/hnakamur/whispertool/cmd"

	"verif/fw"
	"verif/model"
	"verif/vrt"
	"verif/wsp"
)

// C15 - corrupt or hostile bytes.  Engine D in memory-limited child
// processes: the child announces every case before running it, so a death
// (out of memory is unrecoverable in Go) or a stall is attributed to exactly
// one input; the supervisor restarts the child after it.

type c15Case struct {
	Target string `json:"target"` // decoder name | open | remote-view | remote-view-raw
	Data   string `json:"data_hex"`
}

const c15MemKB = 1500000
const c15StallS = 60

func init() {
	fw.Register(&fw.Prop{
		ID: "C15", Level: "exploration", Run: runC15, Replay: replayC15,
		Rule: "evaluations = (target, byte string) cases executed in sandboxed children: all strings of length <=2, all strings of length <=6 over {00,01,7f,80,ff}, and valid encodings with every bit flipped, every truncation and every 32/64-bit field replaced singly and pairwise by extreme values; files = mutated headers x body lengths. Distinct by construction; non-trivial = the input is at least as long as the target's fixed minimum (the decoder gets past its first length test).",
		Assumptions: []string{fmt.Sprintf("children run under ulimit -v %d kB; a stall is %d s without progress for a decode that takes microseconds", c15MemKB, c15StallS),
			"allocation bound per case: 64 KiB + 64 x input length (1 MiB + 64 x for the HTTP client cases, whose transport allocates by itself)"},
	})
	fw.Children["c15"] = c15Child
}

var e32 = []uint32{0, 1, 2, 3, 6, 7, 8, 9, 1<<31 - 1, 1 << 31, 1<<32 - 1, 357913942, 357913943}
var e64 = []uint64{0, 1, 2, 357913942, 357913943, 0x15555556, 0x2aaaaaab, 1<<31 - 1, 1 << 31, 1<<32 - 1, 1<<32 + 1, 768614336404564651, 1537228672809129302, 1<<63 - 1, 1 << 63, 1<<64 - 1}

func c15Enum(thorough bool, f func(k c15Case)) {
	emit := func(target string, b []byte) { f(c15Case{Target: target, Data: hexs(b)}) }
	decs := []string{"Header", "ArchiveInfo", "TimeSeries", "Points", "Point", "Value", "Timestamp", "Duration"}
	// (1) short strings
	small := []byte{0x00, 0x01, 0x7f, 0x80, 0xff}
	maxL := 6
	if thorough {
		maxL = 8
		small = []byte{0x00, 0x01, 0x02, 0x7f, 0x80, 0xff}
	}
	for _, d := range decs {
		emit(d, nil)
		for a := 0; a < 256; a++ {
			emit(d, []byte{byte(a)})
		}
		step := 1
		if !thorough {
			step = 1 // all 65536 two-byte strings
		}
		for a := 0; a < 65536; a += step {
			emit(d, []byte{byte(a >> 8), byte(a)})
		}
		for l := 3; l <= maxL; l++ {
			n := 1
			for i := 0; i < l; i++ {
				n *= len(small)
			}
			for x := 0; x < n; x++ {
				b := make([]byte, l)
				y := x
				for i := range b {
					b[i] = small[y%len(small)]
					y /= len(small)
				}
				emit(d, b)
			}
		}
	}
	// (2) structured mutations
	var headers [][]byte
	for i, tag := range []string{"L5", "L6", "L9"} {
		ld := LayoutByTag(tag)
		headers = append(headers, wsp.Layout{Archs: ld.Archs, Method: []uint32{2, 5, 1}[i], XFF: 0.5}.EncodeHeader())
	}
	if thorough {
		for i, tag := range []string{"L1", "L3", "L4", "L7", "L8", "L10"} {
			ld := LayoutByTag(tag)
			headers = append(headers, wsp.Layout{Archs: ld.Archs, Method: uint32(1 + i%6), XFF: []float32{0, 0.5, 1}[i%3]}.EncodeHeader())
		}
	}
	// intact headers with xFilesFactor 0 and the methods that index their input (last, min, first, max), used only
	// over damaged bodies below
	var intact [][]byte
	for i, tag := range []string{"L5", "L8", "L6", "L7"} {
		ld := LayoutByTag(tag)
		intact = append(intact, wsp.Layout{Archs: ld.Archs, Method: []uint32{3, 6, 5, 4}[i], XFF: 0}.EncodeHeader())
	}
	series := func(from, until, step uint32, n int) []byte {
		b := binary.BigEndian.AppendUint32(nil, from)
		b = binary.BigEndian.AppendUint32(b, until)
		b = binary.BigEndian.AppendUint32(b, step)
		for i := 0; i < n; i++ {
			b = binary.BigEndian.AppendUint64(b, math.Float64bits(float64(i)+0.5))
		}
		return b
	}
	points := func(count uint64, n int) []byte {
		b := binary.BigEndian.AppendUint64(nil, count)
		for i := 0; i < n; i++ {
			b = binary.BigEndian.AppendUint32(b, uint32(1700000000+i))
			b = binary.BigEndian.AppendUint64(b, math.Float64bits(float64(i)))
		}
		return b
	}
	mutate32 := func(target string, base []byte, nfields int, also func([]byte)) {
		put := func(b []byte, i int, v uint32) { binary.BigEndian.PutUint32(b[4*i:], v) }
		for i := 0; i < nfields; i++ {
			for _, v := range e32 {
				b := append([]byte{}, base...)
				put(b, i, v)
				emit(target, b)
				if also != nil {
					also(b)
				}
			}
		}
		for i := 0; i < nfields; i++ {
			for j := i + 1; j < nfields; j++ {
				for _, v := range e32 {
					for _, w := range e32 {
						b := append([]byte{}, base...)
						put(b, i, v)
						put(b, j, w)
						emit(target, b)
						if also != nil && (i == 3 || j-i == 1) {
							also(b)
						}
					}
				}
			}
		}
	}
	flipsAndCuts := func(target string, base []byte) {
		for i := 0; i < len(base)*8; i++ {
			b := append([]byte{}, base...)
			b[i/8] ^= 1 << (i % 8)
			emit(target, b)
		}
		for l := 0; l < len(base); l++ {
			emit(target, base[:l])
		}
	}
	bodyLens := func(hdr []byte) []int {
		// declared size from the (possibly hostile) header, capped
		decl := int64(len(hdr))
		if len(hdr) >= 16 {
			cnt := int(binary.BigEndian.Uint32(hdr[12:]))
			for i := 0; i < cnt && 16+12*i+12 <= len(hdr); i++ {
				decl += 12 * int64(binary.BigEndian.Uint32(hdr[16+12*i+8:]))
			}
		}
		out := []int{0, 1}
		if decl-int64(len(hdr)) <= 1<<16 {
			d := int(decl) - len(hdr)
			out = append(out, d-1, d, d+1)
		} else {
			out = append(out, 4096)
		}
		return out
	}
	asFile := func(hdr []byte) {
		for _, bl := range bodyLens(hdr) {
			if bl < 0 {
				continue
			}
			// bodies: a few plausible intervals; intervals that are no multiple of any step (a damaged base interval); all ones
			for variant := 0; variant < 3; variant++ {
				b := append(append([]byte{}, hdr...), make([]byte, bl)...)
				for i := len(hdr); i+12 <= len(b); i += 12 {
					switch {
					case variant == 0 && (i-len(hdr))%36 == 0:
						binary.BigEndian.PutUint32(b[i:], 1699999990)
					case variant == 1:
						binary.BigEndian.PutUint32(b[i:], uint32(1699999991+7*((i-len(hdr))/12)))
					case variant == 2:
						binary.BigEndian.PutUint32(b[i:], 0xffffffff)
						binary.BigEndian.PutUint64(b[i+4:], 0xffffffffffffffff)
					}
				}
				emit("open", b)
				if bl < 12 {
					break
				}
			}
		}
	}
	for _, h := range headers {
		flipsAndCuts("Header", h)
		for i := 0; i < len(h)*8; i++ {
			b := append([]byte{}, h...)
			b[i/8] ^= 1 << (i % 8)
			asFile(b)
		}
		for l := 0; l < len(h); l++ {
			emit("open", h[:l])
		}
		mutate32("Header", h, len(h)/4, asFile)
		asFile(h)
	}
	for _, h := range append(append([][]byte{}, headers...), intact...) {
		// an intact header over a body whose intervals sit at every offset around the clock (damaged base intervals)
		decl := bodyLens(h)[3]
		// ... around the clock, and around the instants half the 32-bit range away from it (where differences of
		// timestamps change sign), and around both ends of the range
		for _, center := range []int64{1700000000, 1700000000 + 1<<31, 9, 1<<32 - 10} {
			for delta := -9; delta <= 9; delta++ {
				for _, firstOnly := range []bool{false, true} {
					b := append(append([]byte{}, h...), make([]byte, decl)...)
					k := (len(h) - 16) / 12
					for a := 0; a < k; a++ {
						off := int(binary.BigEndian.Uint32(h[16+12*a:]))
						n := int(binary.BigEndian.Uint32(h[16+12*a+8:]))
						for j := 0; j < n; j++ {
							if firstOnly && j > 0 {
								break
							}
							binary.BigEndian.PutUint32(b[off+12*j:], uint32(center+int64(delta)))
							binary.BigEndian.PutUint64(b[off+12*j+4:], math.Float64bits(1.5))
						}
					}
					emit("open", b)
				}
			}
		}
	}
	ts := series(1699999990, 1700000000, 2, 5)
	flipsAndCuts("TimeSeries", ts)
	mutate32("TimeSeries", ts, 3, nil)
	mutate32("TimeSeries", series(1699999990, 1700000000, 2, 0), 3, nil)
	pl := points(3, 3)
	flipsAndCuts("Points", pl)
	for _, n := range []int{0, 1, 3} {
		for _, v := range e64 {
			emit("Points", points(v, n))
		}
	}
	// remote name listings (answers to /items and /files): every string of length <= 5 over a small alphabet and some
	// longer ones with empty lines, bare carriage returns and a missing final newline
	var rec func(prefix []byte, n int)
	rec = func(prefix []byte, n int) {
		emit("remote-items", prefix)
		emit("remote-files", prefix)
		if n == 0 {
			return
		}
		for _, ch := range []byte("a.\n\r/") {
			rec(append(append([]byte{}, prefix...), ch), n-1)
		}
	}
	rec(nil, 5)
	for _, s := range []string{"a.b\n\nc.d\n", "a.b\n\n", "\n\na.b", "a.b\r\n\r\nc.d\r\n", "a.b\nc.d", "\r", "a.b\n\r\n", strings.Repeat("\n", 300), strings.Repeat("x", 70000)} {
		emit("remote-items", []byte(s))
		emit("remote-files", []byte(s))
	}
	// remote /view answers consumed by diff against a local file: answers that agree with the local read in the selected
	// archive(s) but carry values for archives the local side did not select, more or fewer values than the bounds say,
	// or no series where the local side has one.  First byte of the case: archive selection + 1.
	for hi, tag := range []string{"L5", "L6"} {
		ld := LayoutByTag(tag)
		h := wsp.Layout{Archs: ld.Archs, Method: 2, XFF: 0.5}.EncodeHeader()
		_ = hi
		var honest [][]byte
		for i := range ld.Archs {
			sh := model.FetchShape(ld.Archs, i, 0, c15DiffNow, c15DiffNow)
			honest = append(honest, series(uint32(sh.From), uint32(sh.Until), uint32(sh.Step), sh.N))
		}
		absent := series(0, 0, 0, 0)
		for sel := 0; sel <= len(ld.Archs); sel++ { // 0: all archives, i+1: archive i
			variants := [][][]byte{honest}
			for i := range ld.Archs {
				v1 := append([][]byte{}, honest...)
				v1[i] = absent
				sh := model.FetchShape(ld.Archs, i, 0, c15DiffNow, c15DiffNow)
				v2 := append([][]byte{}, honest...)
				v2[i] = series(uint32(sh.From), uint32(sh.Until), uint32(sh.Step), sh.N+1)
				v3 := append([][]byte{}, honest...)
				v3[i] = series(uint32(sh.From), uint32(sh.Until)+uint32(sh.Step), uint32(sh.Step), sh.N+1)
				variants = append(variants, v1, v2, v3)
			}
			for _, v := range variants {
				b := append([]byte{byte(sel)}, h...)
				for _, sr := range v {
					b = append(b, sr...)
				}
				emit("remote-view-diff", b)
			}
		}
	}
	// remote responses: header + per-archive series / point lists, mutated in the element framing
	for _, h := range headers[:2] {
		k := (len(h) - 16) / 12
		goodS, goodP := append([]byte{}, h...), append([]byte{}, h...)
		for i := 0; i < k; i++ {
			goodS = append(goodS, series(1699999990, 1700000000, 2, 5)...)
			goodP = append(goodP, points(2, 2)...)
		}
		emit("remote-view", goodS)
		emit("remote-view-raw", goodP)
		// series whose range is no whole number of steps, carrying exactly the floor((until-from)/step) values the
		// decoder takes
		for _, d := range [][3]uint32{{1000, 1005, 10}, {1000, 1015, 10}, {1000, 1001, 2}, {7, 9, 5}, {1699999990, 1700000001, 2}} {
			b := append([]byte{}, h...)
			for i := 0; i < k; i++ {
				b = append(b, series(d[0], d[1], d[2], int((d[1]-d[0])/d[2]))...)
			}
			emit("remote-view", b)
		}
		for l := 0; l < len(goodS); l += 3 {
			emit("remote-view", goodS[:l])
		}
		for l := 0; l < len(goodP); l += 3 {
			emit("remote-view-raw", goodP[:l])
		}
		for fld := 0; fld < 3; fld++ {
			for _, v := range e32 {
				b := append([]byte{}, goodS...)
				binary.BigEndian.PutUint32(b[len(h)+4*fld:], v)
				emit("remote-view", b)
			}
		}
		for _, v := range e64 {
			b := append([]byte{}, goodP...)
			binary.BigEndian.PutUint64(b[len(h):], v)
			emit("remote-view-raw", b)
		}
		// the same answers behind an HTTP framing that lies: the announced Content-Length (first 8 bytes of the case)
		// is larger than the body the connection delivers before it is closed
		for _, declared := range []uint64{uint64(len(goodS)) + 1, 1 << 20, 1 << 28, 1 << 34} {
			for _, body := range [][]byte{goodS, goodS[:40], {}} {
				b := make([]byte, 8, 8+len(body))
				binary.BigEndian.PutUint64(b, declared)
				emit("remote-view-lying-length", append(b, body...))
				emit("remote-view-raw-lying-length", append(append([]byte{}, b...), goodP[:len(body)*len(goodP)/len(goodS)]...))
			}
		}
		for fld := 0; fld < 4; fld++ {
			for _, v := range e32 {
				b := append([]byte{}, goodS...)
				binary.BigEndian.PutUint32(b[4*fld:], v)
				emit("remote-view", b)
				b2 := append([]byte{}, goodP...)
				binary.BigEndian.PutUint32(b2[4*fld:], v)
				emit("remote-view-raw", b2)
			}
		}
	}
}

var digitsRe = regexp.MustCompile(`[0-9]+`)

func normPanic(s string) string {
	s = firstLine(s)
	s = digitsRe.ReplaceAllString(s, "#")
	if len(s) > 80 {
		s = s[:80]
	}
	return strings.ReplaceAll(s, " ", "_")
}

// ---- child

type c15Stub struct {
	body atomic.Value
	url  string
}

func startStub() *c15Stub {
	st := &c15Stub{}
	st.body.Store([]byte{})
	ln, err := net.Listen("tcp", "127.0.0.1:0")
	if err != nil {
		return nil
	}
	st.url = "http://" + ln.Addr().String()
	go http.Serve(ln, http.HandlerFunc(func(w http.ResponseWriter, r *http.Request) {
		w.Header().Set("Content-Type", "application/octet-stream")
		w.Write(st.body.Load().([]byte))
	}))
	return st
}

// the raw stub answers every request with the announced Content-Length it is told to lie about, the body, and a
// closed connection
type c15RawStub struct {
	declared atomic.Uint64
	body     atomic.Value
	url      string
}

var c15Raw *c15RawStub

func startRawStub() *c15RawStub {
	if c15Raw != nil {
		return c15Raw
	}
	ln, err := net.Listen("tcp", "127.0.0.1:0")
	if err != nil {
		return nil
	}
	st := &c15RawStub{url: "http://" + ln.Addr().String()}
	st.body.Store([]byte{})
	go func() {
		for {
			conn, err := ln.Accept()
			if err != nil {
				return
			}
			go func(conn net.Conn) {
				defer conn.Close()
				buf := make([]byte, 4096)
				n := 0
				for !bytes.Contains(buf[:n], []byte("\r\n\r\n")) && n < len(buf) {
					m, err := conn.Read(buf[n:])
					if err != nil {
						return
					}
					n += m
				}
				fmt.Fprintf(conn, "HTTP/1.1 200 OK\r\nContent-Type: application/octet-stream\r\nContent-Length: %d\r\nConnection: close\r\n\r\n", st.declared.Load())
				conn.Write(st.body.Load().([]byte))
			}(conn)
		}
	}()
	c15Raw = st
	return st
}

// c15DiffNow is the clock of the remote-view-diff cases.
const c15DiffNow = 1700000000

var c15FileSeq int

func c15RunCase(dir string, stub *c15Stub, k c15Case) (class string, alloc uint64) {
	data := unhex(k.Data)
	var ms0, ms1 runtime.MemStats
	runtime.ReadMemStats(&ms0)
	class = "ok"
	panicked, txt := fw.Guard(func() {
		switch k.Target {
		case "open":
			// a fresh path per case: a lock leaked by a failed Open (C13's business) must not stall the next case
			c15FileSeq++
			p := filepath.Join(dir, fmt.Sprintf("c15-%d.wsp", c15FileSeq))
			os.WriteFile(p, data, 0644)
			defer os.Remove(p)
			db, err := wt.Open(p)
			if err != nil {
				class = "err"
				if !vrt.ProbeLockFree(p) {
					// the rejected file is still locked by the descriptor the failed Open left behind: the next Open of
					// this path would wait for ever
					class = "err-and-the-file-is-left-locked"
				}
				return
			}
			defer db.Close()
			class = "opened"
			now := wt.Timestamp(1700000000)
			n := len(db.ArchiveInfoList())
			for id := -1; id < n && id < 6; id++ {
				db.FetchFromArchive(id, 0, now, now)
				db.FetchFromArchive(id, now-10, now, now)
				db.FetchFromArchive(id, now, now, now)
				for k := wt.Timestamp(0); k < 10; k++ {
					db.FetchFromArchive(id, now-k, now-k, now)
					db.FetchFromArchive(id, now-k-1, now-k, now)
				}
				db.FetchFromArchive(id, now-7, now-2, now)
				if id >= 0 {
					db.GetAllRawUnsortedPoints(id)
				}
			}
			db.UpdatePointForArchive(-1, now, 1, now)
			// single updates whose age is judged by the header's (possibly damaged) maximum-retention field
			if al := db.ArchiveInfoList(); n > 0 {
				last := int64(al[n-1].SecondsPerPoint()) * int64(al[n-1].NumberOfPoints())
				mr := int64(db.MaxRetention())
				for _, age := range []int64{last - 1, last, last + 1, mr - 1, mr, mr / 2, 2*last + 3} {
					if age > 0 && age < int64(now) {
						db.UpdatePointForArchive(-1, now-wt.Timestamp(age), 2, now)
						db.UpdatePointsForArchive([]wt.Point{{Time: now - wt.Timestamp(age), Value: 2}}, -1, now)
					}
				}
			}
			db.UpdatePointsForArchive([]wt.Point{{Time: now, Value: 1}, {Time: now - 1, Value: 2}}, -1, now)
			var dense []wt.Point
			for d := 0; d < 20; d++ {
				dense = append(dense, wt.Point{Time: now - wt.Timestamp(d), Value: wt.Value(d)})
			}
			db.UpdatePointsForArchive(dense, -1, now)
			for id := 0; id < n && id < 6; id++ {
				db.UpdatePointForArchive(id, now-1, 3, now)
				db.FetchFromArchive(id, 0, now, now)
			}
			db.Sync()
		case "remote-items", "remote-files":
			if stub == nil {
				class = "skip"
				return
			}
			stub.body.Store(data)
			var err error
			if k.Target == "remote-items" {
				c := &wcmd.SumCommand{SrcBase: stub.url, ItemPattern: "a*", SrcPattern: "*.wsp", ArchiveID: -1, TextOut: ""}
				err = c.Execute()
			} else {
				c := &wcmd.DiffCommand{SrcBase: stub.url, SrcRelPath: "a/*.wsp", DestBase: filepath.Join(dir, "no-such-dest"), ArchiveID: -1, TextOut: ""}
				err = c.Execute()
			}
			if err != nil {
				class = "err"
			}
		case "remote-view-diff":
			if stub == nil || len(data) < 17 {
				class = "skip"
				return
			}
			stub.body.Store(data[1:])
			tag := "L5"
			if binary.BigEndian.Uint32(data[13:]) == 3 {
				tag = "L6"
			}
			ld := LayoutByTag(tag)
			l := wsp.Layout{Archs: ld.Archs, Method: 2, XFF: 0.5}
			ddir := filepath.Join(dir, "c15diff")
			r := EmptyRings(l)
			r[0][uint32(c15DiffNow)%l.Archs[0].N] = wsp.Slot{T: uint32(c15DiffNow), V: 3}
			(&BFile{L: l, Rings: r}).Write(filepath.Join(ddir, "a.wsp"))
			vrt.SetNow(c15DiffNow)
			defer vrt.SetNow(0)
			c := &wcmd.DiffCommand{SrcBase: stub.url, SrcRelPath: "a.wsp", DestBase: ddir, ArchiveID: int(data[0]) - 1, TextOut: ""}
			if err := c.Execute(); err != nil {
				class = "err"
			}
		case "remote-view-lying-length", "remote-view-raw-lying-length":
			raw := startRawStub()
			if raw == nil || len(data) < 8 {
				class = "skip"
				return
			}
			raw.declared.Store(binary.BigEndian.Uint64(data))
			raw.body.Store(data[8:])
			var err error
			if k.Target == "remote-view-lying-length" {
				c := &wcmd.ViewCommand{SrcBase: raw.url, SrcRelPath: "a.wsp", ArchiveID: -1, TextOut: ""}
				err = c.Execute()
			} else {
				c := &wcmd.ViewRawCommand{SrcBase: raw.url, SrcRelPath: "a.wsp", ArchiveID: -1, TextOut: ""}
				err = c.Execute()
			}
			if err != nil {
				class = "err"
			}
		case "remote-view", "remote-view-raw":
			if stub == nil {
				class = "skip"
				return
			}
			stub.body.Store(data)
			var err error
			if k.Target == "remote-view" {
				c := &wcmd.ViewCommand{SrcBase: stub.url, SrcRelPath: "a.wsp", ArchiveID: -1, TextOut: ""}
				err = c.Execute()
			} else {
				c := &wcmd.ViewRawCommand{SrcBase: stub.url, SrcRelPath: "a.wsp", ArchiveID: -1, TextOut: ""}
				err = c.Execute()
			}
			if err != nil {
				class = "err"
			}
		default:
			_, err, reenc, _ := decoders[k.Target](data)
			if err != nil {
				class = "err"
			} else if reenc == nil && k.Target != "Points" && k.Target != "TimeSeries" {
				class = "ok-but-does-not-re-encode"
			}
		}
	})
	runtime.ReadMemStats(&ms1)
	if panicked {
		class = "panic:" + normPanic(txt)
	}
	return class, ms1.TotalAlloc - ms0.TotalAlloc
}

func c15Child(args []string) {
	thorough := args[0] == "thorough"
	shard, _ := strconv.Atoi(args[1])
	of, _ := strconv.Atoi(args[2])
	start, _ := strconv.Atoi(args[3])
	dir := args[4]
	vrt.SetNow(1700000000)
	stub := startStub()
	out := bufio.NewWriterSize(os.Stdout, 1<<16)
	idx := 0
	c15Enum(thorough, func(k c15Case) {
		i := idx
		idx++
		if i%of != shard || i < start {
			return
		}
		risky := k.Target == "open" || strings.HasPrefix(k.Target, "remote") || len(k.Data) >= 16
		fmt.Fprintf(out, "S %d\n", i)
		if risky {
			out.Flush()
		}
		class, alloc := c15RunCase(dir, stub, k)
		fmt.Fprintf(out, "R %d %d %d %s\n", i, alloc, len(k.Data)/2, class)
	})
	fmt.Fprintf(out, "DONE %d\n", idx)
	out.Flush()
}

// ---- supervisor

func c15Judge(k c15Case, class string, alloc uint64, inLen int) (sig, desc string) {
	if strings.HasPrefix(class, "panic:") {
		return "C15/" + k.Target + "/panic/" + strings.TrimPrefix(class, "panic:"), fmt.Sprintf("%s on %d bytes %s: %s", k.Target, inLen, clip(k.Data, 120), class)
	}
	if class == "err-and-the-file-is-left-locked" {
		return "C15/open/hang/rejected-file-left-locked", fmt.Sprintf("Open rejected %d bytes %s but the file is still locked through the descriptor it opened: a later Open of the same path never returns", inLen, clip(k.Data, 120))
	}
	bound := uint64(64<<10 + 64*inLen)
	if strings.HasPrefix(k.Target, "remote") {
		bound = 1<<20 + 64*uint64(inLen) // (the announced length of a lying framing is not input received)
		if k.Target == "remote-items" || k.Target == "remote-files" {
			// every listed name costs one further HTTP request, whose transport allocates by itself
			bound += 32 << 10 * uint64(1+strings.Count(string(unhex(k.Data)), "\n"))
		}
	}
	if alloc > bound {
		return "C15/" + k.Target + "/allocation", fmt.Sprintf("%s on %d bytes %s allocated %d bytes (bound %d); result %s", k.Target, inLen, clip(k.Data, 120), alloc, bound, class)
	}
	return "", ""
}

func clip(s string, n int) string {
	if len(s) > n {
		return s[:n] + "..."
	}
	return s
}

func minLenOf(target string) int {
	switch target {
	case "Header", "open", "remote-view", "remote-view-raw":
		return 16
	case "TimeSeries", "ArchiveInfo", "Point":
		return 12
	case "Points", "Value":
		return 8
	}
	return 4
}

func runC15(c *fw.Ctx) {
	self, _ := os.Executable()
	start := 0
	total := -1
	c.R.Bounds["grid"] = "8 decoders x (all strings len<=2, all len 3..6 over 5 bytes; thorough: len<=8 over 6 bytes); 3 (thorough 9) headers / 2 series / point lists x (every bit flip, every truncation, every field singly and pairwise over 8 (32-bit) or 12 (64-bit) extreme values); files = mutated headers x body lengths {0,1,declared-1,declared,declared+1}; remote view / view-raw responses with mutated framing"
	cases := map[int]c15Case{}
	lookup := func(i int) c15Case {
		if k, ok := cases[i]; ok {
			return k
		}
		idx := 0
		var found c15Case
		c15Enum(c.Thorough(), func(k c15Case) {
			if idx == i {
				found = k
			}
			idx++
		})
		return found
	}
	restarts := 0
	for total < 0 {
		if c.Expired() {
			return
		}
		sh := fmt.Sprintf("ulimit -v %d; exec %q child c15 %s %d %d %d %q", c15MemKB, self, c.Tier, c.Shard, c.Of, start, c.Dir)
		cmd := exec.Command("/bin/sh", "-c", sh)
		cmd.Env = append(os.Environ(), "GOMAXPROCS=2")
		stdout, _ := cmd.StdoutPipe()
		var errBuf strings.Builder
		cmd.Stderr = &limitedWriter{w: &errBuf, n: 4000}
		if err := cmd.Start(); err != nil {
			c.Inconclusive("cannot start sandbox child: " + err.Error())
			return
		}
		lines := make(chan string, 1024)
		go func() {
			sc := bufio.NewScanner(stdout)
			sc.Buffer(make([]byte, 1<<20), 1<<20)
			for sc.Scan() {
				lines <- sc.Text()
			}
			close(lines)
		}()
		cur := -1
		done := false
		stalled := false
	loop:
		for {
			select {
			case ln, ok := <-lines:
				if !ok {
					break loop
				}
				switch {
				case strings.HasPrefix(ln, "S "):
					cur, _ = strconv.Atoi(ln[2:])
				case strings.HasPrefix(ln, "R "):
					f := strings.SplitN(ln, " ", 5)
					i, _ := strconv.Atoi(f[1])
					alloc, _ := strconv.ParseUint(f[2], 10, 64)
					inLen, _ := strconv.Atoi(f[3])
					class := f[4]
					cur = -1
					c.Count("evaluations", 1)
					c.Outcome(strings.SplitN(class, ":", 2)[0])
					if class == "skip" {
						c.Inconclusive("stub HTTP server could not be started in the sandbox child")
						continue
					}
					if strings.HasPrefix(class, "panic:") || alloc > 64<<10 || class == "err-and-the-file-is-left-locked" {
						k := lookup(i)
						if sig, desc := c15Judge(k, class, alloc, inLen); sig != "" {
							c.Violate(sig, desc, inLen, k, "")
						}
					}
				case strings.HasPrefix(ln, "DONE "):
					total, _ = strconv.Atoi(ln[5:])
					done = true
				}
			case <-time.After(c15StallS * time.Second):
				stalled = true
				cmd.Process.Kill()
				break loop
			}
		}
		cmd.Wait()
		if done {
			break
		}
		if cur < 0 {
			c.Inconclusive("sandbox child ended between cases: " + clip(errBuf.String(), 300))
			return
		}
		k := lookup(cur)
		clause := "death"
		es := errBuf.String()
		switch {
		case stalled:
			clause = "hang"
		case strings.Contains(es, "out of memory") || strings.Contains(es, "cannot allocate"):
			clause = "death/out-of-memory"
		}
		c.Count("evaluations", 1)
		c.Outcome("child-" + clause)
		c.Violate("C15/"+k.Target+"/"+clause, fmt.Sprintf("%s on %d bytes %s: sandboxed child (ulimit -v %d kB) %s: %s", k.Target, len(k.Data)/2, clip(k.Data, 120), c15MemKB, clause, clip(firstLine(es), 200)), len(k.Data)/2, k, "")
		start = cur + 1
		restarts++
		c.Count("child_restarts", 1)
		if restarts > 3000 {
			c.R.Exhaustive = false
			c.R.Notes = append(c.R.Notes, "more than 3000 child deaths in one shard; remaining cases skipped")
			return
		}
	}
	// distinct non-trivial count and samples (by re-enumeration, cheap)
	idx := 0
	c15Enum(c.Thorough(), func(k c15Case) {
		if idx%c.Of == c.Shard {
			if len(k.Data)/2 >= minLenOf(k.Target) {
				c.Count("distinct_nontrivial", 1)
			}
			if k.Target == "open" && len(k.Data) > 100 {
				c.Sample(2, map[string]any{"target": k.Target, "bytes": len(k.Data) / 2, "data_prefix_hex": clip(k.Data, 96)})
			}
			if k.Target == "Points" && len(k.Data) > 40 {
				c.Sample(4, k)
			}
		}
		idx++
	})
}

type limitedWriter struct {
	w io.Writer
	n int
}

func (l *limitedWriter) Write(p []byte) (int, error) {
	if l.n > 0 {
		q := p
		if len(q) > l.n {
			q = q[:l.n]
		}
		l.w.Write(q)
		l.n -= len(q)
	}
	return len(p), nil
}

func replayC15(c *fw.Ctx, raw json.RawMessage) (bool, string) {
	var k c15Case
	if err := json.Unmarshal(raw, &k); err != nil {
		return false, err.Error()
	}
	// run the single case in a sandboxed child of its own
	self, _ := os.Executable()
	b, _ := json.Marshal(k)
	p := filepath.Join(c.Dir, "case.json")
	os.WriteFile(p, b, 0644)
	sh := fmt.Sprintf("ulimit -v %d; exec %q child c15one %q %q", c15MemKB, self, p, c.Dir)
	cmd := exec.Command("/bin/sh", "-c", sh)
	done := make(chan struct{})
	var out []byte
	var err error
	go func() { out, err = cmd.CombinedOutput(); close(done) }()
	select {
	case <-done:
	case <-time.After(c15StallS * time.Second):
		cmd.Process.Kill()
		return true, "hang"
	}
	if err != nil {
		return true, "child died: " + clip(firstLine(string(out)), 200)
	}
	f := strings.SplitN(strings.TrimSpace(string(out)), " ", 2)
	if len(f) < 2 {
		return false, "no result"
	}
	alloc, _ := strconv.ParseUint(f[0], 10, 64)
	sig, desc := c15Judge(k, f[1], alloc, len(k.Data)/2)
	return sig != "", desc
}

func init() {
	fw.Children["c15one"] = func(args []string) {
		b, _ := os.ReadFile(args[0])
		var k c15Case
		json.Unmarshal(b, &k)
		vrt.SetNow(1700000000)
		class, alloc := c15RunCase(args[1], startStub(), k)
		fmt.Printf("%d %s\n", alloc, class)
	}
}

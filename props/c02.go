package props

import (
	"encoding/json"
	"fmt"
	"strings"

	"verif/fw"
	"verif/wsp"
)

// C02 - downsampling.  Engine A on the multi-level layouts x six methods x
// five xFilesFactors.  Oracle: model.Propagate (same float64 operations in the
// same order, so bit-exact) compared on the whole parsed file: every slot the
// model recomputes must hold the model's aggregate, every other slot of every
// coarser archive must be exactly as it was, and an update never panics.

func init() {
	fw.Register(&fw.Prop{
		ID: "C02", Level: "model_checking", Run: runC02,
		Replay:      func(c *fw.Ctx, raw json.RawMessage) (bool, string) { return ReplayTransition(c, raw, c02Judge) },
		Rule:        "states = distinct (file bytes, clock) per (layout, method, xff, page); transitions = real updates whose whole post-file is compared with the propagation model; a transition is validated when every propagated slot and every untouched coarser slot agrees bit-for-bit and no panic escaped.",
		Assumptions: []string{"model.Propagate encodes the statement (known>0 and float32(known)/float32(ratio) >= xff)", "operations use explicit archives and in-range ages so routing (C03) cannot interfere"},
		NeedsInstr:  []string{"whispertool:os.Getpagesize"},
	})
}

var c02XFF = []float32{0, float32(1.0 / 3.0), 0.34, 0.5, 1}

func c02Gen(archs []wsp.Arch) func(AState, int) []AOp {
	return func(st AState, d int) []AOp {
		v := Vals[d%3]
		ops := []AOp{
			{Kind: "W1", Arch: 0, Ages: []int64{0}, Vals: []float64{v}},
			{Kind: "W1", Arch: 0, Ages: []int64{1}, Vals: []float64{v}},
			denseBatch(archs[0], 0),
		}
		for _, d := range dedupAges([]int64{1, int64(archs[1].Step), archs[0].Ret()}, 1, 1<<40) {
			ops = append(ops, AOp{Kind: "ADV", D: d})
		}
		if d == 1 {
			// a metric that goes dormant for 12.7 years: every ring's first slot ends up more than 2^31/12 SLOTS behind
			// (for steps up to 2 s) when the next write is propagated.  First in the list: its successor must be among
			// the core states the cap lets through.
			ops = append([]AOp{{Kind: "ADV", D: LongJump2}}, ops...)
		}
		return ops
	}
}

func st0(a wsp.Arch) int64 { return int64(a.Step) }

func subsetsDesc(ages []int64) [][]int64 { // every non-empty subset, oldest first
	var out [][]int64
	n := len(ages)
	for m := 1; m < 1<<n; m++ {
		var s []int64
		for i := n - 1; i >= 0; i-- {
			if m&(1<<i) != 0 {
				s = append(s, ages[i])
			}
		}
		out = append(out, s)
	}
	return out
}

func c02Full(archs []wsp.Arch, method uint32) func(AState) []AOp {
	return func(st AState) []AOp {
		var ops []AOp
		for i := 0; i+1 < len(archs); i++ {
			a, lo := archs[i], archs[i+1]
			lim := 2*int64(lo.Step) + 1
			if lim > a.Ret() {
				lim = a.Ret()
			}
			var near []int64
			for age := int64(0); age < lim; age++ {
				near = append(near, age)
			}
			ages := dedupAges(append(near, a.Ret()-1, a.Ret()-int64(lo.Step)), 0, a.Ret())
			for _, age := range ages {
				for _, v := range Vals {
					ops = append(ops, AOp{Kind: "W1", Arch: i, Ages: []int64{age}, Vals: []float64{v}})
				}
			}
			// sparse batches: every subset of the slots of the two newest coarse intervals
			var sl []int64
			for age := int64(0); age < lim && len(sl) < 8; age += int64(a.Step) {
				sl = append(sl, age)
			}
			for _, sub := range subsetsDesc(sl) {
				op := AOp{Kind: "WB", Arch: i, Ages: sub}
				for j := range sub {
					op.Vals = append(op.Vals, Vals[(j+len(sub))%3])
				}
				ops = append(ops, op)
			}
			// a batch spanning the whole ring: its oldest point sits in the interval at the retention edge, its newest in
			// the current one (at an unaligned clock the newest evicts the oldest from the ring within the same batch:
			// the oldest coarser interval then has nothing to aggregate, the later ones still have)
			for _, ages := range [][]int64{{a.Ret() - 1, 0}, {a.Ret() - 1, st0(a), 0}, {a.Ret() - 1, a.Ret() - st0(a) - 1, 0}} {
				ok := true
				for _, g := range ages {
					ok = ok && g >= 0 && g < a.Ret()
				}
				if ok && !ambiguousOrder(st0(a), st.Now, ages) {
					vals := []float64{1, 4, -2}[:len(ages)]
					ops = append(ops, AOp{Kind: "WB", Arch: i, Ages: ages, Vals: vals})
				}
			}
			// a batch whose LAST point is dated ahead of the clock (a sender with a fast clock): the earlier points are
			// stored and every coarser slot covering them is recomputed all the same
			st1 := int64(a.Step)
			for _, fut := range []int64{-1, -st1, -(a.Ret() - st1)} {
				if fut < 0 && -fut < a.Ret() {
					ops = append(ops, AOp{Kind: "WB", Arch: i, Ages: []int64{st1, 0, fut}, Vals: []float64{1, 4, -2}})
					if i == 0 {
						ops = append(ops, AOp{Kind: "WB", Arch: -1, Ages: []int64{st1, 0, fut}, Vals: []float64{1, 4, -2}})
					}
				}
			}
			// an explicit "no value" among the finer values (what copying NaN stores): it is a stored value like any other,
			// so sum and average over it are NaN, first/last pick it by position (max/min over NaN are left alone: the
			// statement does not say which operand a comparison with NaN keeps)
			if method != 4 && method != 5 && len(sl) >= 2 {
				ops = append(ops, AOp{Kind: "W1", Arch: i, Ages: []int64{sl[0]}, Vals: []float64{NaNVal}})
				ops = append(ops, AOp{Kind: "W1", Arch: i, Ages: []int64{sl[1]}, Vals: []float64{NaNVal}})
				ops = append(ops, AOp{Kind: "WB", Arch: i, Ages: []int64{sl[1], sl[0]}, Vals: []float64{NaNVal, 4}})
				ops = append(ops, AOp{Kind: "WB", Arch: i, Ages: []int64{sl[1], sl[0]}, Vals: []float64{NaNVal, NaNVal}})
			}
			ops = append(ops, denseBatch(a, i))
			d := denseBatch(a, i) // dense with every slot supplied twice
			dd := AOp{Kind: "WB", Arch: i}
			for j := range d.Ages {
				dd.Ages = append(dd.Ages, d.Ages[j], d.Ages[j])
				dd.Vals = append(dd.Vals, d.Vals[j], -d.Vals[j])
			}
			ops = append(ops, dd)
		}
		return ops
	}
}

func firstLine(s string) string {
	if i := strings.IndexByte(s, '\n'); i >= 0 {
		return s[:i]
	}
	return s
}

func c02Judge(t *Trans) (string, string) {
	if t.Obs.OpenErr != "" {
		return "", ""
	}
	ctx := fmt.Sprintf("layout %s method=%s xff=%v page=%d now=%d %s", t.Cfg.Spec, methodName(t.Cfg.Method), t.Cfg.XFF, t.Cfg.Page, t.Pre.Now, t.Op)
	if t.Obs.Panic != "" {
		return "C02/panic", ctx + ": update panicked: " + firstLine(t.Obs.Panic)
	}
	if t.Obs.Err != "" || t.PostErr != "" {
		return "", ""
	}
	written := t.Op.Arch
	for _, m := range t.Mism {
		switch {
		case m.Kind == "propagate":
			pre, ok := t.PreRings[m.Arch][m.Class]
			clause := "wrong-aggregate"
			if m.Got == slotStr(pre, ok) {
				clause = "not-recomputed"
			}
			return "C02/" + clause, fmt.Sprintf("%s: archive %d class %d holds %s, propagation model says %s", ctx, m.Arch, m.Class, m.Got, m.Want)
		case m.Kind == "untouched" && m.Arch > written:
			return "C02/stored-without-basis", fmt.Sprintf("%s: archive %d class %d changed to %s although the statement leaves it as it was (%s)", ctx, m.Arch, m.Class, m.Got, m.Want)
		}
	}
	return "", ""
}

func runC02(c *fw.Ctx) {
	var layouts []LayoutDef
	for _, tag := range []string{"L4", "L5", "L6", "L7", "L8", "L9"} {
		layouts = append(layouts, LayoutByTag(tag))
	}
	depth, maxCore := 3, 120
	if c.Thorough() {
		depth, maxCore = 4, 400
		for _, ld := range ThoroughExtraLayouts() {
			if len(ld.Archs) >= 2 {
				layouts = append(layouts, ld)
			}
		}
	}
	c.R.Bounds["layouts"] = fmt.Sprintf("%d multi-level layouts (L4-L9; thorough: + all two-level and every 12th three-level small list at depth 3)", len(layouts))
	c.R.Bounds["methods_xff"] = "6 methods x xff {0, f32(1/3), 0.34, 0.5, 1}"
	c.R.Bounds["history"] = fmt.Sprintf("generator depth %d (<=%d core states per config) + 1 operation of the full alphabet", depth, maxCore)
	for li, ld := range layouts {
		clocks := Clocks(ld.Archs, false, []string{"mid"})
		if !c.Thorough() || li >= 6 {
			clocks = []int64{clocks[0], clocks[2%len(clocks)], clocks[len(clocks)-1]}
		}
		// one clock after 2038 (times beyond MaxInt32) and one just representable, per layout
		hi := Clocks(ld.Archs, false, []string{"high"})
		lo := Clocks(ld.Archs, false, []string{"low"})
		clocks = append(clocks, hi[1%len(hi)], lo[len(lo)-1])
		for m := uint32(1); m <= 6; m++ {
			for _, xff := range c02XFF {
				for ci, now := range clocks {
					if !c.Mine() {
						continue
					}
					if c.Expired() {
						return
					}
					page := 4096
					if ci == 0 && m == 2 {
						page = 16
					}
					cfg := ACfg{Tag: ld.Tag, Spec: ld.Spec, Archs: ld.Archs, Method: m, XFF: xff, Page: page}
					e := &Explorer{C: c, Cfg: cfg, Now0: now, Depth: depth, Gen: c02Gen(cfg.Archs), Full: c02Full(cfg.Archs, cfg.Method), MaxCore: maxCore}
					if li >= 6 { // the thorough tier's additional layouts: quick settings
						e.Depth, e.MaxCore = 3, 40
					}
					e.Judge = func(t *Trans) (string, string) {
						for k, v := range t.Exp.Trace.Stats {
							c.Count(k, v)
						}
						return c02Judge(t)
					}
					e.Run()
					c.Sample(3, map[string]any{"layout": cfg.Spec, "method": methodName(m), "xff": xff, "now0": now, "full_alphabet_size": len(e.Full(AState{Now: now})), "example_op": e.Full(AState{Now: now})[len(e.Full(AState{Now: now}))/2].String()})
				}
			}
		}
	}
}

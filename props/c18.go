package props

import (
	"encoding/json"
	"fmt"
	"math"
	"path/filepath"
	"sort"
	"time"

	wcmd "github.com/hnakamur/whispertool/cmd"

	"verif/fw"
	"verif/wsp"
)

// C18 - view and view-raw show exactly what is stored.  Engine B: files are
// written by the independent encoder over {absent, value, value, stale lap}
// per slot with awkward doubles; the printed text is parsed back and compared
// with the model's fetch (view) and with the physical slots (view-raw).

type c18Case struct {
	Layout  string `json:"layout"`
	Method  uint32 `json:"method"`
	Now     int64  `json:"now"`
	Palette int    `json:"palette"`
	Code    []int  `json:"slot_choices"`
	Cmd     string `json:"cmd"`
	Archive int    `json:"archive"`
	From    int64  `json:"from"`
	Until   int64  `json:"until"`
	Header  bool   `json:"header"`
	Sort    bool   `json:"sort"`
	Zone    int    `json:"local_zone_offset_s,omitempty"` // the process's local time zone while the command runs
}

func init() {
	fw.Register(&fw.Prop{
		ID: "C18", Level: "exploration", Run: runC18, Replay: replayC18,
		Rule:        "a case = (file content, clock, command, archive selection, window, header/sort flags); contents enumerate every assignment of {absent, value A, value B, stale lap} to every slot; distinct by construction; non-trivial = at least one selected slot of the window holds a value.",
		Assumptions: []string{"view-raw with from == until != 0 is not generated (the statement does not define a one-instant range)", "header text is checked field by field, not byte by byte"},
		NeedsInstr:  []string{"cmd:time.Now"},
	})
}

var c18Palettes = [][3]float64{
	{0.1, math.Inf(1), 7},
	{1.0 / 3.0, math.Inf(-1), math.NaN()},
	{9007199254740993, math.NaN(), math.Copysign(0, -1)},
	{math.Nextafter(1, 2), math.Nextafter(1e22, math.Inf(1)), math.MaxFloat64},
	{math.SmallestNonzeroFloat64, -1.5, 123456789.125},
}

func c18Choices(pal int, n int) []SlotChoice {
	p := c18Palettes[pal]
	ch := []SlotChoice{{Kind: "absent"}, {Kind: "value", V: p[0]}, {Kind: "stale", V: p[2]}, {Kind: "value", V: p[1]}}
	if n == 5 { // {absent, value, older lap, newer lap}: a file written under a clock that is ahead of the viewer's
		return []SlotChoice{ch[0], ch[1], ch[2], {Kind: "newer", V: p[1]}}
	}
	return ch[:n]
}

func c18File(k c18Case, nchoices int) *BFile {
	ld := LayoutByTag(k.Layout)
	l := wsp.Layout{Archs: ld.Archs, Method: k.Method, XFF: 0.5}
	var out *BFile
	want := fmt.Sprint(k.Code)
	EnumContents(l, k.Now, c18Choices(k.Palette, nchoices), func(r []wsp.Ring, code []int) {
		if out == nil && fmt.Sprint(code) == want {
			out = &BFile{L: l, Rings: wsp.CloneRings(r), Base: basePicks(code, len(l.Archs))}
		}
	})
	return out
}

func basePicks(code []int, k int) []int {
	s := 0
	for _, c := range code {
		s = s*3 + c
	}
	out := make([]int, k)
	for i := range out {
		out[i] = (s + i) % 7
	}
	return out
}

func c18Eval(c *fw.Ctx, k c18Case, bf *BFile) (sig, desc string, nontrivial bool) {
	dir := filepath.Join(c.Dir, "c18")
	bf.Write(filepath.Join(dir, "a.wsp"))
	out := filepath.Join(dir, "out.txt")
	var cmd Executor
	if k.Cmd == "view" {
		cmd = &wcmd.ViewCommand{SrcBase: dir, SrcRelPath: "a.wsp", From: tsOf(k.From), Until: tsOf(k.Until), ArchiveID: k.Archive, ShowHeader: k.Header, TextOut: out}
	} else {
		cmd = &wcmd.ViewRawCommand{SrcBase: dir, SrcRelPath: "a.wsp", From: tsOf(k.From), Until: tsOf(k.Until), ArchiveID: k.Archive, ShowHeader: k.Header, SortsByTime: k.Sort, TextOut: out}
	}
	oldLocal := time.Local
	if k.Zone != 0 {
		time.Local = time.FixedZone("verif", k.Zone) // the output must be UTC whatever the local zone is
	}
	err, pn := RunCommand(k.Now, cmd)
	time.Local = oldLocal
	text := readAndRemove(out)
	ctx := fmt.Sprintf("%s layout %s now=%d palette=%d slots=%v archive=%d from=%d until=%d header=%v sort=%v zone=%+ds", k.Cmd, k.Layout, k.Now, k.Palette, k.Code, k.Archive, k.From, k.Until, k.Header, k.Sort, k.Zone)
	if pn != "" {
		return "C18/" + k.Cmd + "/panic", ctx + ": " + firstLine(pn), false
	}
	until := k.Until
	if until == 0 {
		until = k.Now
	}
	hdr, pts, other, bad := SplitOutput(text)
	if bad != "" {
		return "C18/" + k.Cmd + "/unparsable-output", ctx + ": " + bad, false
	}
	if len(other) > 0 {
		return "C18/" + k.Cmd + "/unexpected-line", ctx + ": " + other[0]["_line"], false
	}
	var want []PointRec
	if k.Cmd == "view" {
		exp, ok := ExpRead(bf.L, bf.Rings, k.Archive, k.From, until, k.Now)
		if !ok {
			if err == nil {
				return "C18/view/no-error", ctx + ": the read must fail but view reported success", false
			}
			return "", "", false
		}
		for i, s := range exp {
			if s == nil {
				continue
			}
			for j, v := range s.Vals {
				want = append(want, PointRec{i, s.Shape.From + int64(j)*s.Shape.Step, v})
				nontrivial = nontrivial || !math.IsNaN(v)
			}
		}
	} else {
		phys := wsp.FromRings(bf.L, bf.Rings, bf.Base)
		for i := range bf.L.Archs {
			if k.Archive != -1 && k.Archive != i {
				continue
			}
			var sel []PointRec
			for _, s := range phys.Slots[i] {
				t := int64(s.T)
				if (k.From != 0 && t <= k.From) || t > until {
					continue
				}
				sel = append(sel, PointRec{i, t, s.V})
				nontrivial = nontrivial || s.T != 0
			}
			if k.Sort {
				sort.SliceStable(sel, func(a, b int) bool { return sel[a].T < sel[b].T })
			}
			want = append(want, sel...)
		}
	}
	if err != nil {
		return "C18/" + k.Cmd + "/error", ctx + ": " + err.Error(), nontrivial
	}
	if k.Header {
		if msg := CheckHeaderText(hdr, bf.L); msg != "" {
			return "C18/" + k.Cmd + "/header", ctx + ": " + msg, nontrivial
		}
	} else if len(hdr) > 0 {
		return "C18/" + k.Cmd + "/header-shown", ctx + ": header printed although switched off", nontrivial
	}
	if len(pts) != len(want) {
		return "C18/" + k.Cmd + "/record-count", fmt.Sprintf("%s: %d point lines, want %d (%v vs %v)", ctx, len(pts), len(want), pts, want), nontrivial
	}
	for i := range want {
		if pts[i].Arch != want[i].Arch || pts[i].T != want[i].T {
			return "C18/" + k.Cmd + "/record-order-or-time", fmt.Sprintf("%s: line %d is %v, want %v", ctx, i, pts[i], want[i]), nontrivial
		}
		if !sameVal(pts[i].V, want[i].V) {
			return "C18/" + k.Cmd + "/value", fmt.Sprintf("%s: line %d is %v, want %v", ctx, i, pts[i], want[i]), nontrivial
		}
	}
	return "", "", nontrivial
}

func runC18(c *fw.Ctx) {
	type lay struct {
		tag      string
		nchoices int
		pals     []int
	}
	lays := []lay{{"L3", 4, []int{0, 1, 2, 3, 4}}, {"L4", 4, []int{0, 1, 2, 3, 4}}, {"L8", 3, []int{0, 2}}, {"L10", 3, []int{1, 4}}, {"L4", 5, []int{0, 3}}, {"L3", 5, []int{1}}}
	if c.Shard == 0 {
		for _, z := range []int{0, 9 * 3600} {
			sig, desc := c18Big(c, Clocks(LP.Archs, false, []string{"mid"})[1], z)
			c.Count("evaluations", 1)
			if sig != "" {
				c.Violate(sig, desc, 5000, c18Case{Layout: "LP", Now: Clocks(LP.Archs, false, []string{"mid"})[1], Zone: z}, "")
			}
		}
	}
	if c.Thorough() {
		lays = append(lays, lay{"L5", 3, []int{0, 1}}, lay{"L8", 4, []int{1, 3}}, lay{"L10", 4, []int{0, 2, 3}})
	}
	c.R.Bounds["contents"] = "every assignment of {absent, value A, stale lap, value B} to every slot of L3 (3 slots), L4 (5 slots) x 5 palettes of awkward doubles; {absent, A, stale} on L8 (7 slots) and on the three-level L10 (6 slots) x 2 palettes"
	for _, ly := range lays {
		ld := LayoutByTag(ly.tag)
		clocks := Clocks(ld.Archs, false, []string{"mid"})
		clocks = []int64{clocks[0], clocks[1], clocks[len(clocks)-1]}
		rmax := ld.Archs[len(ld.Archs)-1].Ret()
		r0 := ld.Archs[0].Ret()
		for _, pal := range ly.pals {
			for ci, now := range clocks {
				l := wsp.Layout{Archs: ld.Archs, Method: uint32(1 + (pal+ci)%6), XFF: 0.5}
				EnumContents(l, now, c18Choices(pal, ly.nchoices), func(r []wsp.Ring, code []int) {
					if !c.Mine() || c.Expired() {
						return
					}
					bf := &BFile{L: l, Rings: wsp.CloneRings(r), Base: basePicks(code, len(l.Archs))}
					cd := append([]int{}, code...)
					ids := []int{-1}
					for i := range l.Archs {
						ids = append(ids, i)
					}
					vw := [][2]int64{{0, 0}, {now - r0, 0}, {now - 3, now - 1}, {now - rmax - 5, now - rmax + 1}, {now - 1, now + 5}, {now - 2, now - 2}, {now + 2, now + 5}, {now + 1, now + 1},
						// windows that END exactly on an archive's retention edge: the oldest slot still kept is inside
						{now - r0 - 3, now - r0}, {now - rmax - 2, now - rmax}}
					rw := [][2]int64{{0, 0}, {now - 3, now - 1}, {now - rmax - int64(l.Archs[0].Step), now - 2}, {1, 0}}
					for _, id := range ids {
						for wi, w := range vw {
							k := c18Case{Layout: ly.tag, Method: l.Method, Now: now, Palette: pal, Code: cd, Cmd: "view", Archive: id, From: w[0], Until: w[1], Header: (wi+id)%2 == 0, Zone: []int{0, 0, 9 * 3600, -(5*3600 + 1800)}[(wi+id+len(cd)+cd[0])%4]}
							c18One(c, k, bf)
						}
						for wi, w := range rw {
							for _, srt := range []bool{false, true} {
								k := c18Case{Layout: ly.tag, Method: l.Method, Now: now, Palette: pal, Code: cd, Cmd: "view-raw", Archive: id, From: w[0], Until: w[1], Header: (wi+id)%2 == 1, Sort: srt}
								c18One(c, k, bf)
							}
						}
					}
				})
			}
		}
	}
}

func c18One(c *fw.Ctx, k c18Case, bf *BFile) {
	sig, desc, nt := c18Eval(c, k, bf)
	c.Count("evaluations", 1)
	if nt {
		c.Count("distinct_nontrivial", 1)
	}
	c.Outcome(k.Cmd)
	if sig != "" {
		n := 0
		for _, x := range k.Code {
			if x != 0 {
				n++
			}
		}
		c.Violate(sig, desc, n*10+len(k.Code), k, "")
	}
	if nt && k.Archive == -1 && k.From == 0 {
		c.Sample(3, k)
	}
}

func replayC18(c *fw.Ctx, raw json.RawMessage) (bool, string) {
	var k c18Case
	if err := json.Unmarshal(raw, &k); err != nil {
		return false, err.Error()
	}
	if k.Layout == "LP" {
		sig, desc := c18Big(c, k.Now, k.Zone)
		return sig != "", desc
	}
	for _, n := range []int{4, 3, 5} {
		if bf := c18File(k, n); bf != nil {
			sig, desc, _ := c18Eval(c, k, bf)
			return sig != "", desc
		}
	}
	return false, "cannot rebuild the file"
}

// c18Big: a multi-page archive (700 slots, more than one 4 KiB page of 12-byte slots) filled completely and wrapped:
// view-raw must list all 700 physical slots exactly, and every view point must be among them.
func c18Big(c *fw.Ctx, now int64, zone int) (string, string) {
	l := wsp.Layout{Archs: LP.Archs, Method: 2, XFF: 0}
	r := EmptyRings(l)
	for j, t := range SlotTimes(l.Archs[0], now) {
		if j%5 != 3 {
			r[0][uint32(t)%700] = wsp.Slot{T: uint32(t), V: float64(j) + 0.125}
		}
	}
	for j, t := range SlotTimes(l.Archs[1], now) {
		r[1][uint32(t/100)%14] = wsp.Slot{T: uint32(t), V: -float64(j)}
	}
	bf := &BFile{L: l, Rings: r, Base: []int{123, 5}}
	dir := filepath.Join(c.Dir, "c18big")
	bf.Write(filepath.Join(dir, "a.wsp"))
	phys := wsp.FromRings(l, r, bf.Base)
	out := filepath.Join(dir, "out.txt")
	oldLocal := time.Local
	if zone != 0 {
		time.Local = time.FixedZone("verif", zone)
	}
	defer func() { time.Local = oldLocal }()
	for _, srt := range []bool{false, true} {
		cmd := &wcmd.ViewRawCommand{SrcBase: dir, SrcRelPath: "a.wsp", ArchiveID: -1, ShowHeader: false, SortsByTime: srt, TextOut: out}
		err, pn := RunCommand(now, cmd)
		_, pts, _, bad := SplitOutput(readAndRemove(out))
		if err != nil || pn != "" || bad != "" {
			return "C18/view-raw/big-archive/failed", fmt.Sprintf("view-raw of the 700-slot archive: %v %s %s", err, firstLine(pn), bad)
		}
		var want []PointRec
		for i := range l.Archs {
			var sel []PointRec
			for _, sl := range phys.Slots[i] {
				if int64(sl.T) <= now {
					sel = append(sel, PointRec{i, int64(sl.T), sl.V})
				}
			}
			if srt {
				sort.SliceStable(sel, func(a, b int) bool { return sel[a].T < sel[b].T })
			}
			want = append(want, sel...)
		}
		if msg := comparePoints(pts, want); msg != "" {
			return "C18/view-raw/big-archive/slots", fmt.Sprintf("view-raw (sort=%v, zone %+ds) of a 700-slot archive spanning three pages: %s", srt, zone, msg)
		}
	}
	cmd := &wcmd.ViewCommand{SrcBase: dir, SrcRelPath: "a.wsp", ArchiveID: -1, ShowHeader: false, TextOut: out}
	err, pn := RunCommand(now, cmd)
	_, pts, _, bad := SplitOutput(readAndRemove(out))
	if err != nil || pn != "" || bad != "" {
		return "C18/view/big-archive/failed", fmt.Sprintf("view of the 700-slot archive: %v %s %s", err, firstLine(pn), bad)
	}
	exp, _ := ExpRead(l, r, -1, 0, now, now)
	if msg := comparePoints(pts, expPoints(exp)); msg != "" {
		return "C18/view/big-archive/points", "view of a 700-slot archive: " + msg
	}
	return "", ""
}

package props

import (
	"encoding/json"
	"fmt"
	"math"
	"os"
	"path/filepath"
	"strings"

	wt "github.com/hnakamur/whispertool"
	wcmd "github.com/hnakamur/whispertool/cmd"

	"verif/fw"
	"verif/wsp"
)

// C11 - sum-copy stores the sum; sum-diff agrees with it.  Engine B: items of
// two source files over every hole pattern x destination kinds and contents;
// sum-copy, then the destination is parsed and compared with the reference
// sum (C10's), then sum-diff must be clean; then the destination is perturbed
// in exactly one slot and sum-diff must report exactly that slot.

type c11Case struct {
	Layout  string  `json:"layout"`
	Now     int64   `json:"now"`
	Codes   [][]int `json:"source_file_slot_choices"`
	Dst     []int   `json:"dest_slots"`
	DstKind string  `json:"dest_kind"` // missing | fresh | file | coarser-equal
	Archive int     `json:"archive"`
	From    int64   `json:"from"`
	Until   int64   `json:"until"`
	Perturb int     `json:"perturbed_slot"`
	Base    int     `json:"choices_per_source_slot,omitempty"`
}

func init() {
	fw.Register(&fw.Prop{
		ID: "C11", Level: "exploration", Run: runC11, Replay: replayC11,
		Rule:        "a case = (contents of the two source files of an item, destination kind/content, clock, archive selection, window, perturbed slot); non-trivial = the destination differed from the sum in at least one selected slot before sum-copy.",
		Assumptions: []string{"the reference sum is C10's (NaN-skipping, NaN only if no file has a value)", "sum-diff with a missing side is not constrained by the statement"},
		NeedsInstr:  []string{"cmd:time.Now"},
	})
}

func c11Eval(c *fw.Ctx, k c11Case) (sig, desc string, nontrivial bool) {
	ld := LayoutByTag(k.Layout)
	l := wsp.Layout{Archs: ld.Archs, Method: 2, XFF: 0}
	root := filepath.Join(c.Dir, "c11")
	os.RemoveAll(root)
	sbase, dbase := filepath.Join(root, "s"), filepath.Join(root, "d")
	var files [][]wsp.Ring
	for f, code := range k.Codes {
		nb := 3
		if k.Base == 2 {
			nb = 2
		}
		r := contentByCode(l, k.Now, c10Choices(f, nb), code)
		(&BFile{L: l, Rings: r, Base: basePicks(code, len(l.Archs))}).Write(filepath.Join(sbase, "it", "x", []string{"a.wsp", "b.wsp"}[f]))
		files = append(files, r)
	}
	// a second item (one source file) that sorts after x: its destination is created by sum-copy and stays clean,
	// so a deviation in x is followed by a clean item in every sum-diff run
	ycode := make([]int, len(k.Codes[0]))
	for i := range ycode {
		ycode[i] = (i + len(k.Dst)) % 3
	}
	ry := contentByCode(l, k.Now, c10Choices(2, 3), ycode)
	if codeParity(k.Codes[0]) == 1 { // the second item is a symbolic link to a directory outside the item pattern (see c10World)
		(&BFile{L: l, Rings: ry}).Write(filepath.Join(sbase, "elsewhere-y", "a.wsp"))
		if os.Symlink(filepath.Join("..", "elsewhere-y"), filepath.Join(sbase, "it", "y")) != nil {
			(&BFile{L: l, Rings: ry}).Write(filepath.Join(sbase, "it", "y", "a.wsp"))
		}
	} else {
		(&BFile{L: l, Rings: ry}).Write(filepath.Join(sbase, "it", "y", "a.wsp"))
	}
	until := k.Until
	if until == 0 {
		until = k.Now
	}
	want, ok := ExpSum(l, files, k.Archive, k.From, until, k.Now)
	if !ok {
		return "", "", false
	}
	dpath := filepath.Join(dbase, "it", "x", "sum.wsp")
	dst := EmptyRings(l)
	switch k.DstKind {
	case "fresh":
		(&BFile{L: l, Rings: dst}).Write(dpath)
	case "file":
		dst = contentByCode(l, k.Now, c08DstChoices[:2], k.Dst)
		(&BFile{L: l, Rings: dst, Base: basePicks(k.Dst, len(l.Archs))}).Write(dpath)
	case "almost-equal":
		// the destination holds, in every slot, a value one ulp away from the sum: sum-copy must still store the sum exactly
		all, _ := ExpSum(l, files, -1, 0, k.Now, k.Now)
		for i := range l.Archs {
			for j, v := range all[i].Vals {
				if !math.IsNaN(v) && v != 0 {
					t := all[i].Shape.From + int64(j)*all[i].Shape.Step
					dst[i][uint32(t/int64(l.Archs[i].Step))%l.Archs[i].N] = wsp.Slot{T: uint32(t), V: math.Nextafter(v, math.Inf(-1))}
				}
			}
		}
		(&BFile{L: l, Rings: dst}).Write(dpath)
	case "coarser-equal":
		// the destination already equals the sum in every archive but the finest
		all, _ := ExpSum(l, files, -1, 0, k.Now, k.Now)
		for i := 1; i < len(l.Archs); i++ {
			for j, v := range all[i].Vals {
				if !math.IsNaN(v) {
					t := all[i].Shape.From + int64(j)*all[i].Shape.Step
					dst[i][uint32(t/int64(l.Archs[i].Step))%l.Archs[i].N] = wsp.Slot{T: uint32(t), V: v}
				}
			}
		}
		(&BFile{L: l, Rings: dst}).Write(dpath)
	}
	out := filepath.Join(root, "out.txt")
	ctx := fmt.Sprintf("layout %s now=%d sources=%v dest=%v(%s) archive=%d from=%d until=%d", k.Layout, k.Now, k.Codes, k.Dst, k.DstKind, k.Archive, k.From, k.Until)
	if k.DstKind == "missing" {
		// before anything is copied the destinations do not exist: sum-diff must say so as a difference (with an err:
		// line naming the destination side), not succeed and not break off with a plain error
		sd0 := &wcmd.SumDiffCommand{SrcBase: sbase, ItemPattern: "it/*", SrcPattern: "*.wsp", DestBase: dbase, DestRelPath: "sum.wsp", From: tsOf(k.From), Until: tsOf(k.Until), ArchiveID: k.Archive, TextOut: out}
		err0, pn0 := RunCommand(k.Now, sd0)
		t0 := readAndRemove(out)
		if cls := classify(err0, pn0); cls != "diff-found" || !strings.Contains(t0, "srcOrDest:destination") {
			return "C11/sum-diff/missing-destination/" + cls, fmt.Sprintf("sum-diff %s: the destination does not exist: verdict %s (%v), output %q", ctx, cls, err0, clip(t0, 300)), true
		}
	}
	sc := &wcmd.SumCopyCommand{SrcBase: sbase, DestBase: dbase, ItemPattern: "it/*", SrcPattern: "*.wsp", DestRelPath: "sum.wsp",
		AggregationMethod: wt.Sum, XFilesFactor: 0, ArchiveInfoList: archList(l.Archs), From: tsOf(k.From), Until: tsOf(k.Until), ArchiveID: k.Archive, TextOut: out}
	err, pn := RunCommand(k.Now, sc)
	os.Remove(out)
	if cls := classify(err, pn); cls != "nil" {
		if cls == "panic" {
			return "C11/sum-copy/panic", ctx + ": " + firstLine(pn), false
		}
		return "", "", false
	}
	pre, _ := ExpRead(l, dst, k.Archive, k.From, until, k.Now)
	b, rerr := os.ReadFile(dpath)
	if rerr != nil {
		return "C11/sum-copy/destination-not-created", ctx, true
	}
	pf, perr := wsp.Parse(b)
	var got []wsp.Ring
	if perr == nil {
		got, perr = pf.Rings()
	}
	if perr != nil {
		return "C11/sum-copy/destination-unparsable", ctx + ": " + perr.Error(), true
	}
	have, _ := ExpRead(l, got, k.Archive, k.From, until, k.Now)
	type slot struct {
		a, j int
	}
	var slots []slot
	for i := range want {
		if want[i] == nil {
			continue
		}
		for j, sv := range want[i].Vals {
			slots = append(slots, slot{i, j})
			if !valEqual(sv, pre[i].Vals[j]) {
				nontrivial = true
			}
			if !valEqual(sv, have[i].Vals[j]) {
				clause := "wrong-value"
				if valEqual(sv, pre[i].Vals[j]) {
					clause = "slot-equal-before-changed"
				} else if valEqual(pre[i].Vals[j], have[i].Vals[j]) {
					clause = "not-copied"
				}
				return "C11/sum-copy/dest-differs/" + clause, fmt.Sprintf("sum-copy %s: archive %d t=%d: destination holds %v, sum is %v (before: %v)", ctx, i, want[i].Shape.From+int64(j)*want[i].Shape.Step, have[i].Vals[j], sv, pre[i].Vals[j]), nontrivial
			}
		}
	}
	// item y: created and equal to its single source
	if yb, err := os.ReadFile(filepath.Join(dbase, "it", "y", "sum.wsp")); err != nil {
		return "C11/sum-copy/second-item-not-copied", ctx + ": the destination of the second matched item was not created", nontrivial
	} else if yf, err := wsp.Parse(yb); err == nil {
		yr, rerr := yf.Rings()
		if rerr != nil {
			return "C11/sum-copy/destination-unparsable", ctx + ": second item: " + rerr.Error(), nontrivial
		}
		wy, _ := ExpSum(l, [][]wsp.Ring{ry}, k.Archive, k.From, until, k.Now)
		hy, _ := ExpRead(l, yr, k.Archive, k.From, until, k.Now)
		for i := range wy {
			if wy[i] == nil {
				continue
			}
			for j, v := range wy[i].Vals {
				if !valEqual(v, hy[i].Vals[j]) {
					return "C11/sum-copy/second-item-differs", fmt.Sprintf("%s: item it.y archive %d value %d is %v, want %v", ctx, i, j, hy[i].Vals[j], v), nontrivial
				}
			}
		}
	}
	sd := &wcmd.SumDiffCommand{SrcBase: sbase, ItemPattern: "it/*", SrcPattern: "*.wsp", DestBase: dbase, DestRelPath: "sum.wsp", From: tsOf(k.From), Until: tsOf(k.Until), ArchiveID: k.Archive, TextOut: out}
	err, pn = RunCommand(k.Now, sd)
	text := readAndRemove(out)
	if cls := classify(err, pn); cls != "nil" {
		return "C11/sum-diff/not-clean-after-sum-copy/" + cls, fmt.Sprintf("sum-diff %s: %v %s %s", ctx, err, firstLine(pn), text), nontrivial
	}
	if len(slots) == 0 {
		return "", "", nontrivial
	}
	// perturb exactly one selected slot of the destination and expect exactly that slot
	ps := slots[k.Perturb%len(slots)]
	t := want[ps.a].Shape.From + int64(ps.j)*want[ps.a].Shape.Step
	a := l.Archs[ps.a]
	cls := uint32(t/int64(a.Step)) % a.N
	old := have[ps.a].Vals[ps.j]
	switch {
	case math.IsNaN(old):
		got[ps.a][cls] = wsp.Slot{T: uint32(t), V: 77}
	case k.Perturb%3 == 0:
		got[ps.a][cls] = wsp.Slot{T: uint32(t), V: old + 0.5}
	case k.Perturb%3 == 1 && old != 0:
		got[ps.a][cls] = wsp.Slot{T: uint32(t), V: math.Nextafter(old, math.Inf(1))} // a deviation in the last bit is a deviation
	default:
		delete(got[ps.a], cls)
	}
	(&BFile{L: l, Rings: got}).Write(dpath)
	newv := math.NaN()
	if s, ok := got[ps.a][cls]; ok {
		newv = s.V
	}
	err, pn = RunCommand(k.Now, sd)
	text = readAndRemove(out)
	if cls := classify(err, pn); cls != "diff-found" {
		return "C11/sum-diff/deviation-not-reported/" + cls, fmt.Sprintf("sum-diff %s: destination perturbed at archive %d t=%d (%v -> %v) but the verdict is %s", ctx, ps.a, t, old, newv, cls), true
	}
	recs, _, _, bad := parseDiffLines(text)
	if bad != "" {
		return "C11/sum-diff/listing-line", ctx + ": " + bad, true
	}
	if len(recs) != 1 || recs[0].Arch != ps.a || recs[0].T != t || !sameVal(recs[0].Src, want[ps.a].Vals[ps.j]) || !sameVal(recs[0].Dst, newv) {
		return "C11/sum-diff/listing", fmt.Sprintf("sum-diff %s: perturbed archive %d t=%d (sum %v, dest %v) but listed %v", ctx, ps.a, t, want[ps.a].Vals[ps.j], newv, recs), true
	}
	// the second item's destination perturbed as well (its first selected slot): each item's section lists its own
	// slot and nothing else - two lines in all
	if ypath := filepath.Join(dbase, "it", "y", "sum.wsp"); k.Perturb%2 == 0 {
		yb, _ := os.ReadFile(ypath)
		if yf, perr := wsp.Parse(yb); perr == nil {
			if yr, rerr := yf.Rings(); rerr == nil {
				wy, _ := ExpSum(l, [][]wsp.Ring{ry}, k.Archive, k.From, until, k.Now)
				done := false
				for i := range wy {
					if wy[i] == nil || len(wy[i].Vals) == 0 || done {
						continue
					}
					ty := wy[i].Shape.From
					yr[i][uint32(ty/int64(l.Archs[i].Step))%l.Archs[i].N] = wsp.Slot{T: uint32(ty), V: 55}
					(&BFile{L: l, Rings: yr}).Write(ypath)
					done = true
					err, pn = RunCommand(k.Now, sd)
					t2 := readAndRemove(out)
					r2, _, _, bad2 := parseDiffLines(t2)
					if c2 := classify(err, pn); c2 != "diff-found" || bad2 != "" || len(r2) != 2 || r2[0].Arch != ps.a || r2[0].T != t || r2[1].Arch != i || r2[1].T != ty || !sameVal(r2[1].Dst, 55) {
						return "C11/sum-diff/listing-with-two-deviating-items", fmt.Sprintf("sum-diff %s: item x deviates at archive %d t=%d and item y at archive %d t=%d, but the run gives %s and lists %v %s", ctx, ps.a, t, i, ty, c2, r2, bad2), true
					}
				}
			}
		}
	}
	// a second session: one source file changes in one slot; sum-copy runs again on the (perturbed) destination
	f2 := wsp.CloneRings(files[0])
	a0 := l.Archs[ps.a]
	f2[ps.a][uint32(t/int64(a0.Step))%a0.N] = wsp.Slot{T: uint32(t), V: 1000.25}
	(&BFile{L: l, Rings: f2}).Write(filepath.Join(sbase, "it", "x", "a.wsp"))
	files2 := append([][]wsp.Ring{f2}, files[1:]...)
	err, pn = RunCommand(k.Now, sc)
	os.Remove(out)
	if classify(err, pn) == "nil" {
		b2, _ := os.ReadFile(dpath)
		if pf2, e2 := wsp.Parse(b2); e2 == nil {
			if g2, e2 := pf2.Rings(); e2 == nil {
				w2, _ := ExpSum(l, files2, k.Archive, k.From, until, k.Now)
				h2, _ := ExpRead(l, g2, k.Archive, k.From, until, k.Now)
				for i := range w2 {
					if w2[i] == nil {
						continue
					}
					for j, sv := range w2[i].Vals {
						if !valEqual(sv, h2[i].Vals[j]) {
							return "C11/second-session/dest-differs", fmt.Sprintf("sum-copy %s: after one source slot changed and sum-copy ran again: archive %d value %d is %v, the sum is %v", ctx, i, j, h2[i].Vals[j], sv), true
						}
					}
				}
			} else {
				return "C11/second-session/destination-unparsable", ctx + ": " + e2.Error(), true
			}
		}
	} else if classify(err, pn) == "panic" {
		return "C11/sum-copy/panic", ctx + ": second session: " + firstLine(pn), true
	}
	return "", "", true
}

func runC11(c *fw.Ctx) {
	type plan struct {
		tag   string
		base  int // choices per slot of the two source files
		every int // quick: take every n-th source pair
	}
	plans := []plan{{"L4", 3, 7}, {"L10", 2, 1}}
	c.R.Bounds["contents"] = "L4: two source files x 3^5 hole patterns each (every 7th pair in quick, all 59049 in thorough); L10 (three levels, 6 slots): two source files x 2^6 each (all 4096 pairs); destinations {missing, never written, equal to the sum in coarser archives only, 8 (32 thorough) arbitrary contents}; a second single-file item in every world"
	idx := 0
	for _, pl := range plans {
		ld := LayoutByTag(pl.tag)
		ns := 0
		for _, a := range ld.Archs {
			ns += int(a.N)
		}
		clocks := Clocks(ld.Archs, false, []string{"mid"})
		now := clocks[1]
		rmax, r0 := ld.Archs[len(ld.Archs)-1].Ret(), ld.Archs[0].Ret()
		wins := [][2]int64{{0, 0}, {now - 3, now - 1}, {now - r0 - 2, 0}, {now - rmax - 3, now - rmax + 2}, {now - r0 - 3, now - r0 - 1}}
		srcs := allCodes(ns, pl.base)
		dsts := allCodes(ns, 2)
		if len(dsts) > 32 {
			dsts = dsts[:32]
		}
		archs := []int{-1}
		for i := range ld.Archs {
			archs = append(archs, i)
		}
		for _, a := range srcs {
			for _, b := range srcs {
				idx++
				if !c.Thorough() && idx%pl.every != 0 {
					continue
				}
				if !c.Mine() {
					continue
				}
				if c.Expired() {
					return
				}
				kinds := []string{"almost-equal", "missing", "fresh", "coarser-equal"}
				for di := -4; di < len(dsts); di++ {
					if di >= 0 && !c.Thorough() && (di+idx)%4 != 0 {
						continue
					}
					kind := "file"
					var d []int
					if di < 0 {
						kind = kinds[di+4]
					} else {
						d = dsts[di]
					}
					for ai, arch := range archs {
						for wi, w := range wins {
							if (ai > 0 || wi > 0) && (idx+di+ai+wi)%5 != 0 {
								continue
							}
							k := c11Case{Layout: pl.tag, Now: now, Codes: [][]int{a, b}, Dst: d, DstKind: kind, Archive: arch, From: w[0], Until: w[1], Perturb: idx + di + 3}
							if pl.base == 2 {
								k.Base = 2
							}
							sig, desc, nt := c11Eval(c, k)
							c.Count("evaluations", 1)
							if nt {
								c.Count("distinct_nontrivial", 1)
							}
							c.Outcome(pl.tag + "/" + kind)
							if sig != "" {
								n := 0
								for _, cd := range append(k.Codes, k.Dst) {
									for _, v := range cd {
										if v != 0 {
											n++
										}
									}
								}
								c.Violate(sig, desc, n, k, "")
							}
							if nt && kind == "file" {
								c.Sample(3, k)
							}
						}
					}
				}
			}
		}
	}
}

func replayC11(c *fw.Ctx, raw json.RawMessage) (bool, string) {
	var k c11Case
	if err := json.Unmarshal(raw, &k); err != nil {
		return false, err.Error()
	}
	sig, desc, _ := c11Eval(c, k)
	return sig != "", desc
}

package props

import (
	"time"
	"context"
	"encoding/json"
	"fmt"
	"os"
	"os/exec"
	"strings"

	"verif/fw"
	"verif/vrt"
)

// Engine C: stateless exploration of thread interleavings under the
// cooperative scheduler of verif/vrt, directly on the implementation.

// Scenario is one closed multi-threaded harness.  Make builds fresh state for
// ONE execution and returns the thread bodies and a judge for that execution.
type Scenario struct {
	Name  string
	Bound int // preemption bound (<0: unbounded)
	Make  func() (bodies []func(), judge func(s *vrt.Sched) (sig, desc, outcome string))
}

type schedCase struct {
	Scenario string `json:"scenario"`
	Choices  []int  `json:"choices"`
}

const maxPointsPerExecution = 4000

func runOnce(sc *Scenario, prefix []int) (*vrt.Sched, string, string, string) {
	bodies, judge := sc.Make()
	s := vrt.Run(prefix, maxPointsPerExecution, bodies...)
	sig, desc, outcome := judge(s)
	return s, sig, desc, outcome
}

func traceKey(s *vrt.Sched) string {
	var b strings.Builder
	for _, p := range s.Trace {
		fmt.Fprintf(&b, "%d%s%v/", p.Running, p.Kind, p.Enabled)
	}
	return b.String()
}

// ExploreScenario enumerates every schedule within the bound, judges each execution and reports coverage.
func ExploreScenario(c *fw.Ctx, prop string, sc *Scenario) {
	rechecks := 0
	violated := false
	var lastOutcome string
	// the last worker is reserved for the race pass (it runs concurrently with the exploration)
	shard, of := c.Shard, c.Of
	if of > 1 {
		of--
		if shard == of {
			return
		}
	}
	maxRechecks := 20
	if of > 1 {
		maxRechecks = 3
	}
	st := vrt.ExploreSharded(sc.Bound, shard, of, func(prefix []int) *vrt.Sched {
		s, sig, desc, outcome := runOnce(sc, prefix)
		lastOutcome = outcome
		c.Count("transitions", int64(len(s.Trace)))
		if rechecks < maxRechecks {
			// R2: the same schedule must give the same trace and the same observation
			rechecks++
			c.Count("determinism_rechecks", 1)
			s2, sig2, _, out2 := runOnce(sc, s.Choices)
			if traceKey(s) != traceKey(s2) || sig != sig2 || outcome != out2 {
				c.Inconclusive(fmt.Sprintf("harness: scenario %s is not deterministic under replay", sc.Name))
			}
		}
		if len(s.Panics) > 0 && sig == "" {
			sig, desc = prop+"/"+sc.Name+"/panic", firstLine(s.Panics[0])
		}
		if s.Deadlock && sig == "" {
			sig, desc = prop+"/"+sc.Name+"/deadlock", fmt.Sprintf("no enabled thread after %d points", len(s.Trace))
		}
		if s.Horizon {
			c.Inconclusive(fmt.Sprintf("scenario %s exceeded %d points in one execution", sc.Name, maxPointsPerExecution))
		}
		if sig != "" {
			ok := true
			for i := 0; i < 4; i++ {
				_, s2, _, _ := runOnce(sc, s.Choices)
				if len(s.Panics) > 0 || s.Deadlock {
					continue
				}
				ok = ok && s2 == sig
			}
			if !ok {
				c.Inconclusive("harness: violation " + sig + " did not reproduce 5/5 under the same schedule")
			} else {
				c.Violate(sig, fmt.Sprintf("scenario %s, schedule %v (%d preemptions): %s", sc.Name, s.Choices, s.PreemptionsBefore(len(s.Trace)), desc), len(s.Choices)+100*s.PreemptionsBefore(len(s.Trace)), schedCase{Scenario: sc.Name, Choices: s.Choices}, "")
				violated = true
			}
		} else {
			c.Count("traces_validated_against_impl", 1)
		}
		return s
	}, func(s *vrt.Sched) bool {
		c.Count("states", 1) // one complete execution (schedule) explored
		c.Outcome(sc.Name + ":" + lastOutcome)
		// a scenario is abandoned after its first confirmed violation: the DFS order makes it a minimal-prefix
		// witness, and a broken lock would otherwise multiply the schedule space a thousandfold
		return !violated && !c.Expired() && len(c.R.Inconclusive) == 0
	})
	c.Count("executions", st.Executions)
	if int64(st.MaxPoints) > c.R.Counters["max_points_per_execution"] {
		c.R.Counters["max_points_per_execution"] = int64(st.MaxPoints)
	}
	if int64(st.MaxPreempt) > c.R.Counters["max_preemptions_explored"] {
		c.R.Counters["max_preemptions_explored"] = int64(st.MaxPreempt)
	}
	for _, d := range st.Diverged {
		c.Inconclusive("harness: schedule replay diverged: " + d)
	}
	c.Count("executions:"+sc.Name, st.Executions)
	c.R.Bounds["scenario:"+sc.Name] = fmt.Sprintf("preemption_bound=%d max_points=%d (executions per scenario: counters executions:<name>; explored in %d shards split at the root execution's alternatives)", sc.Bound, st.MaxPoints, c.Of)
	if st.Stopped && !violated && c.R.Exhaustive {
		c.R.Exhaustive = false
		c.R.Notes = append(c.R.Notes, "exploration of scenario "+sc.Name+" stopped early")
	}
}

func replayScenario(c *fw.Ctx, raw json.RawMessage, scenarios func(c *fw.Ctx) []*Scenario) (bool, string) {
	var k schedCase
	if err := json.Unmarshal(raw, &k); err != nil {
		return false, err.Error()
	}
	for _, sc := range scenarios(c) {
		if sc.Name == k.Scenario {
			s, sig, desc, _ := runOnce(sc, k.Choices)
			if s.Diverged != "" {
				return false, "schedule no longer applies: " + s.Diverged
			}
			if sig == "" && len(s.Panics) > 0 {
				return true, firstLine(s.Panics[0])
			}
			if sig == "" && s.Deadlock {
				return true, "deadlock"
			}
			return sig != "", desc
		}
	}
	return false, "unknown scenario " + k.Scenario
}

// RacePass runs the free-running bodies of a property in the race-detector build and reports data races.
func RacePass(c *fw.Ctx, prop string) {
	bin := os.Getenv("VERIF_RACE_BIN")
	if bin == "" {
		c.R.Notes = append(c.R.Notes, "race-detector companion binary not available: free-running race pass skipped")
		c.Count("race_pass_runs", 0)
		return
	}
	// the pass runs free: a thread that blocks for ever (e.g. on a lock a change to the repository leaks) would
	// hold up the whole check, so the child is given a generous limit and what it printed so far is used
	limit := 240 * time.Second
	if c.Thorough() {
		limit = 900 * time.Second // the other workers keep every core busy for the whole run
	}
	ctx, cancel := context.WithTimeout(context.Background(), limit)
	defer cancel()
	cmd := exec.CommandContext(ctx, bin, "child", "racepass", prop, c.Dir)
	cmd.Env = append(os.Environ(), "GORACE=halt_on_error=0 exitcode=0", "GOMAXPROCS=16")
	out, err := cmd.CombinedOutput()
	text := string(out)
	if ctx.Err() != nil {
		c.R.Notes = append(c.R.Notes, fmt.Sprintf("the free-running race pass did not finish within %v (a thread blocked); its reports up to then are used", limit))
		c.Count("race_pass_stalled", 1)
		err = nil
	}
	n := strings.Count(text, "WARNING: DATA RACE")
	c.Count("race_pass_runs", 1)
	c.Count("race_reports", int64(n))
	if n > 0 {
		i := strings.Index(text, "WARNING: DATA RACE")
		rep := text[i:]
		// a report none of whose frames lies in the repository or its two instrumented dependencies is a race
		// of the harness itself: never a verdict on the property
		first := rep
		if j := strings.Index(rep[1:], "WARNING: DATA RACE"); j > 0 {
			first = rep[:j+1]
		}
		if !strings.Contains(first, "hnakamur/whispertool") && !strings.Contains(first, "/repo/") && !strings.Contains(first, "hnakamur/filebuffer") && !strings.Contains(first, "x/sync") && !strings.Contains(first, "/instr/") {
			c.Inconclusive("the race pass reported a race with no frame in the code under test (harness race): " + clip(firstLine(first[len("WARNING: DATA RACE"):]), 200))
			return
		}
		if len(rep) > 1800 {
			rep = rep[:1800]
		}
		// signature: the first two source locations of the report inside the repository
		loc := "unknown"
		for _, ln := range strings.Split(rep, "\n") {
			if strings.Contains(ln, ".go:") && (strings.Contains(ln, "/repo/") || strings.Contains(ln, "whispertool")) && !strings.Contains(ln, "/verif/") {
				f := strings.Fields(ln)
				p := f[0]
				if j := strings.LastIndex(p, "/"); j >= 0 {
					p = p[j+1:]
				}
				if j := strings.Index(p, ":"); j >= 0 {
					p = p[:j]
				}
				loc = p
				break
			}
		}
		c.Violate(prop+"/data-race/"+loc, "race detector report in the free-running pass:\n"+rep, 1000, schedCase{Scenario: "racepass"}, "")
	} else if err != nil && !strings.Contains(text, "racepass done") {
		c.R.Notes = append(c.R.Notes, "race pass ended abnormally: "+clip(firstLine(text), 200))
	}
}

package props

import (
	"flag"
	"fmt"
	"hash/fnv"
	"io"
	"math"
	"os"
	"path/filepath"
	"runtime/debug"
	"strconv"
	"strings"
	"time"

	wt "github.com/hnakamur/whispertool"
	wcmd "github.com/hnakamur/whispertool/cmd"

	"verif/fw"
	"verif/model"
	"verif/vrt"
	"verif/wsp"
)

// Engine B: world enumeration for the CLI commands.  A world is a directory
// tree of .wsp files written directly by the independent encoder from model
// states (any slot pattern, any base position, stale laps, coarser archives
// that are not aggregates of finer ones) plus a clock value.  The real
// (*XCommand).Execute() runs in-process under the harness clock.

type BFile struct {
	L     wsp.Layout
	Rings []wsp.Ring
	Base  []int
}

func (f *BFile) Bytes() []byte { return wsp.FromRings(f.L, f.Rings, f.Base).Encode() }

func (f *BFile) Write(path string) error {
	os.MkdirAll(filepath.Dir(path), 0755)
	return os.WriteFile(path, f.Bytes(), 0644)
}

func EmptyRings(l wsp.Layout) []wsp.Ring {
	r := make([]wsp.Ring, len(l.Archs))
	for i := range r {
		r[i] = wsp.Ring{}
	}
	return r
}

// SlotTimes: the N intervals of archive a inside its retention at now, ascending.
func SlotTimes(a wsp.Arch, now int64) []int64 {
	s := int64(a.Step)
	top := now - now%s
	out := make([]int64, a.N)
	for j := int64(0); j < int64(a.N); j++ {
		out[int64(a.N)-1-j] = top - j*s
	}
	return out
}

// SlotChoice is one option for a slot of a world file.
type SlotChoice struct {
	Kind string // absent | value | stale
	V    float64
}

// EnumContents calls f with every assignment of choices to the slots (inside the retention at now) of every archive.
// The rings passed to f are reused: clone to keep.
func EnumContents(l wsp.Layout, now int64, choices []SlotChoice, f func(rings []wsp.Ring, code []int)) {
	type pos struct {
		arch int
		t    int64
	}
	var ps []pos
	for i, a := range l.Archs {
		for _, t := range SlotTimes(a, now) {
			ps = append(ps, pos{i, t})
		}
	}
	code := make([]int, len(ps))
	rings := EmptyRings(l)
	var rec func(k int)
	rec = func(k int) {
		if k == len(ps) {
			f(rings, code)
			return
		}
		p := ps[k]
		a := l.Archs[p.arch]
		cls := uint32(p.t/int64(a.Step)) % a.N
		for ci, ch := range choices {
			code[k] = ci
			switch ch.Kind {
			case "absent":
				delete(rings[p.arch], cls)
			case "value":
				rings[p.arch][cls] = wsp.Slot{T: uint32(p.t), V: ch.V}
			case "stale":
				rings[p.arch][cls] = wsp.Slot{T: uint32(p.t - a.Ret()), V: ch.V}
			case "newer":
				rings[p.arch][cls] = wsp.Slot{T: uint32(p.t + a.Ret()), V: ch.V}
			}
			rec(k + 1)
		}
		delete(rings[p.arch], cls)
	}
	rec(0)
}

// ExpSeries is the expected result of reading one archive of a file through the commands.
type ExpSeries struct {
	Shape model.Shape
	Vals  []float64
}

// ExpRead mirrors what the commands read: per archive id a series (nil when not selected or no series).
// ok=false: the read itself must fail (archive id out of range or from > until).
func ExpRead(l wsp.Layout, rings []wsp.Ring, sel int, from, until, now int64) (out []*ExpSeries, ok bool) {
	out = make([]*ExpSeries, len(l.Archs))
	if sel != -1 && (sel < 0 || sel >= len(l.Archs)) {
		return nil, false
	}
	for i := range l.Archs {
		if sel != -1 && sel != i {
			continue
		}
		sh := model.FetchShape(l.Archs, i, from, until, now)
		if sh.Err {
			return nil, false
		}
		if sh.Nil {
			continue
		}
		out[i] = &ExpSeries{Shape: sh, Vals: model.Fetch(l.Archs, rings, sh)}
	}
	return out, true
}

type Executor interface{ Execute() error }

// RunCommand executes a command under the harness clock and recovers panics.
// TrackLocks, when set, makes RunCommand record in LockLeaks every file a command left locked when it returned
// (the lock is then released so that the harness can go on).  The collector is switched off meanwhile: a finalizer
// closing a forgotten handle would otherwise hide the leak at a moment of its own choosing.
var TrackLocks bool
var LockLeaks []string

// FlagsEvery: when > 0, about one in FlagsEvery commands (chosen by a hash of their options, so that a replay makes the
// same choice) is not executed as the struct the check built but re-created from command-line arguments through the
// command's own Parse: options must mean on the command line what the fields mean.
var FlagsEvery = 5

// ViaFlags returns the command re-created by its Parse from the arguments that spell out cmd's fields, or nil when
// this command is not chosen or cannot be spelled (a required option is empty).
func ViaFlags(cmd Executor) Executor {
	if FlagsEvery <= 0 {
		return nil
	}
	ts := func(name string, t wt.Timestamp) []string {
		if t == 0 {
			return nil
		}
		return []string{"-" + name, t.String()}
	}
	lay := func(m wt.AggregationMethod, x float32, l wt.ArchiveInfoList) []string {
		var a []string
		if m != 0 {
			a = append(a, "-agg-method", m.String())
		}
		if x != 0 {
			a = append(a, "-x-files-factor", strconv.FormatFloat(float64(x), 'g', -1, 32))
		}
		if l != nil {
			a = append(a, "-retentions", l.String())
		}
		return a
	}
	var args []string
	// an option whose value is the documented default is left out: the default must be what the documentation says
	str := func(name, v, def string) {
		if v != def {
			args = append(args, "-"+name, v)
		}
	}
	boolean := func(name string, v, def bool) {
		if v != def {
			args = append(args, "-"+name+"="+strconv.FormatBool(v))
		}
	}
	archive := func(id int) {
		if id != -1 {
			args = append(args, "-archive", strconv.Itoa(id))
		}
	}
	window := func(from, until wt.Timestamp) {
		args = append(args, ts("from", from)...)
		args = append(args, ts("until", until)...)
	}
	var fresh interface {
		Parse(fs *flag.FlagSet, args []string) error
		Execute() error
	}
	switch c := cmd.(type) {
	case *wcmd.ViewCommand:
		str("src-base", c.SrcBase, "")
		str("src", c.SrcRelPath, "")
		archive(c.ArchiveID)
		str("text-out", c.TextOut, "-")
		boolean("header", c.ShowHeader, true)
		window(c.From, c.Until)
		fresh = &wcmd.ViewCommand{}
	case *wcmd.ViewRawCommand:
		str("src-base", c.SrcBase, "")
		str("src", c.SrcRelPath, "")
		archive(c.ArchiveID)
		str("text-out", c.TextOut, "-")
		boolean("header", c.ShowHeader, true)
		boolean("sort", c.SortsByTime, false)
		window(c.From, c.Until)
		fresh = &wcmd.ViewRawCommand{}
	case *wcmd.DiffCommand:
		str("src-base", c.SrcBase, "")
		str("src", c.SrcRelPath, "")
		str("dest-base", c.DestBase, "")
		str("dest", c.DestRelPath, "")
		archive(c.ArchiveID)
		str("text-out", c.TextOut, "-")
		window(c.From, c.Until)
		fresh = &wcmd.DiffCommand{}
	case *wcmd.CopyCommand:
		str("src-base", c.SrcBase, "")
		str("src", c.SrcRelPath, "")
		str("dest-base", c.DestBase, "")
		str("dest", c.DestRelPath, "")
		archive(c.ArchiveID)
		str("text-out", c.TextOut, "-")
		boolean("copy-nan", c.CopyNaN, false)
		window(c.From, c.Until)
		args = append(args, lay(c.AggregationMethod, c.XFilesFactor, c.ArchiveInfoList)...)
		fresh = &wcmd.CopyCommand{}
	case *wcmd.SumCommand:
		str("src-base", c.SrcBase, "")
		str("item", c.ItemPattern, "")
		str("src", c.SrcPattern, "")
		archive(c.ArchiveID)
		str("text-out", c.TextOut, "-")
		boolean("header", c.ShowHeader, true)
		window(c.From, c.Until)
		fresh = &wcmd.SumCommand{}
	case *wcmd.SumCopyCommand:
		str("src-base", c.SrcBase, "")
		str("item", c.ItemPattern, "")
		str("src", c.SrcPattern, "")
		str("dest-base", c.DestBase, "")
		str("dest", c.DestRelPath, "")
		archive(c.ArchiveID)
		str("text-out", c.TextOut, "-")
		window(c.From, c.Until)
		args = append(args, lay(c.AggregationMethod, c.XFilesFactor, c.ArchiveInfoList)...)
		fresh = &wcmd.SumCopyCommand{}
	case *wcmd.SumDiffCommand:
		str("src-base", c.SrcBase, "")
		str("item", c.ItemPattern, "")
		str("src", c.SrcPattern, "")
		str("dest-base", c.DestBase, "")
		str("dest", c.DestRelPath, "")
		archive(c.ArchiveID)
		str("text-out", c.TextOut, "-")
		window(c.From, c.Until)
		fresh = &wcmd.SumDiffCommand{}
	default:
		return nil
	}
	h := fnv.New32a()
	for _, a := range args {
		h.Write([]byte(a))
		h.Write([]byte{0})
	}
	if h.Sum32()%uint32(FlagsEvery) != 0 {
		return nil
	}
	fs := flag.NewFlagSet("x", flag.ContinueOnError)
	fs.SetOutput(io.Discard)
	if err := fresh.Parse(fs, args); err != nil {
		return nil // a required option is empty in the struct: the check wants exactly that request, run it as built
	}
	return fresh
}

func RunCommand(now int64, cmd Executor) (err error, panicTxt string) {
	vrt.SetNow(now)
	defer vrt.SetNow(0)
	if f := ViaFlags(cmd); f != nil {
		cmd = f
	}
	if TrackLocks {
		old := debug.SetGCPercent(-1)
		vrt.BeginLockLog()
		defer func() {
			LockLeaks = append(LockLeaks, vrt.EndLockLog()...)
			debug.SetGCPercent(old)
		}()
	}
	p, txt := fw.Guard(func() { err = cmd.Execute() })
	if p {
		return nil, txt
	}
	return err, ""
}

// WithStdout runs f with os.Stdout redirected into a file and returns what was written.
func WithStdout(dir string, f func()) string {
	p := filepath.Join(dir, "stdout.txt")
	file, err := os.Create(p)
	if err != nil {
		f()
		return ""
	}
	old := os.Stdout
	os.Stdout = file
	func() {
		defer func() { os.Stdout = old }()
		f()
	}()
	file.Close()
	b, _ := os.ReadFile(p)
	os.Remove(p)
	return string(b)
}

// Record is one parsed LTSV output line.
type Record map[string]string

func ParseLTSV(text string) []Record {
	var out []Record
	for _, ln := range strings.Split(text, "\n") {
		if ln == "" {
			continue
		}
		r := Record{}
		for _, fld := range strings.Split(ln, "\t") {
			if i := strings.IndexByte(fld, ':'); i >= 0 {
				r[fld[:i]] = fld[i+1:]
			} else {
				r["_"] = fld
			}
		}
		r["_line"] = ln
		out = append(out, r)
	}
	return out
}

func ParseUTC(s string) (int64, bool) {
	t, err := time.Parse("2006-01-02T15:04:05Z", s)
	if err != nil {
		return 0, false
	}
	return t.Unix(), true
}

func FormatUTC(t int64) string { return time.Unix(t, 0).UTC().Format("2006-01-02T15:04:05Z") }

// ParseVal parses a printed value; ok=false when the text is not a float.
func ParseVal(s string) (float64, bool) {
	v, err := strconv.ParseFloat(s, 64)
	if err != nil {
		return 0, false
	}
	return v, true
}

func sameVal(a, b float64) bool {
	if math.IsNaN(a) || math.IsNaN(b) {
		return math.IsNaN(a) && math.IsNaN(b)
	}
	return math.Float64bits(a) == math.Float64bits(b)
}

// PointRec is an (archive, time, value) output record.
type PointRec struct {
	Arch int
	T    int64
	V    float64
}

func (p PointRec) String() string { return fmt.Sprintf("(a%d t=%d v=%v)", p.Arch, p.T, p.V) }

// SplitOutput separates header lines, point records ("archive:.. t:.. val:..") and other lines.
func SplitOutput(text string) (hdr []Record, pts []PointRec, other []Record, bad string) {
	for _, r := range ParseLTSV(text) {
		switch {
		case r["aggMethod"] != "" || r["archiveInfo"] != "":
			hdr = append(hdr, r)
		case r["archive"] != "" && r["val"] != "" && r["t"] != "":
			a, err := strconv.Atoi(r["archive"])
			t, ok := ParseUTC(r["t"])
			v, ok2 := ParseVal(r["val"])
			if err != nil || !ok || !ok2 {
				return nil, nil, nil, "unparsable point line: " + r["_line"]
			}
			pts = append(pts, PointRec{a, t, v})
		default:
			other = append(other, r)
		}
	}
	return
}

// CheckHeaderText verifies the printed header block against the layout (independent field-by-field reading).
func CheckHeaderText(hdr []Record, l wsp.Layout) string {
	if len(hdr) != 1+len(l.Archs) {
		return fmt.Sprintf("header block has %d lines, want %d", len(hdr), 1+len(l.Archs))
	}
	h := hdr[0]
	if h["aggMethod"] != methodName(l.Method) || h["aggMethodNum"] != fmt.Sprint(l.Method) || h["archiveCount"] != fmt.Sprint(len(l.Archs)) {
		return "header line: " + h["_line"]
	}
	if _, v, must := refDuration(h["maxRetention"]); must || v == nil || v.Int64() != l.MaxRet() {
		return "maxRetention: " + h["maxRetention"]
	}
	if x, err := strconv.ParseFloat(h["xFileFactor"], 32); err != nil || float32(x) != l.XFF {
		return "xFileFactor: " + h["xFileFactor"]
	}
	offs := l.Offsets()
	for i, a := range l.Archs {
		r := hdr[1+i]
		_, v, must := refDuration(r["durationPerPoint"])
		if r["archiveInfo"] != fmt.Sprint(i) || must || v == nil || v.Int64() != int64(a.Step) || r["numberOfPoints"] != fmt.Sprint(a.N) || r["offset"] != fmt.Sprint(offs[i]) {
			return "archive line: " + r["_line"]
		}
	}
	return ""
}

func readAndRemove(p string) string {
	b, _ := os.ReadFile(p)
	os.Remove(p)
	return string(b)
}

var _ = io.Discard

type wtTimestamp = wt.Timestamp

func tsOf(t int64) wt.Timestamp { return wt.Timestamp(t) }

// Package fw is the small framework shared by all checks: work sharding over
// worker processes, result merging, known-findings handling, replay
// artefacts and evidence files.
package fw

import (
	"bufio"
	"crypto/sha256"
	"encoding/hex"
	"encoding/json"
	"fmt"
	"io"
	"os"
	"os/exec"
	"path/filepath"
	"runtime/debug"
	"sort"
	"strconv"
	"strings"
	"sync"
	"syscall"
	"time"
)

// Violation is one failing case.  Sig is computed by the checker from the
// failing case (property/clause/discriminating features), never free text.
type Violation struct {
	Sig    string          `json:"sig"`
	Desc   string          `json:"desc"`
	Case   json.RawMessage `json:"case"`              // what Replay needs
	GoTest string          `json:"go_test,omitempty"` // plain Go test reproducing it
	Weight int             `json:"weight"`            // smaller = simpler witness
}

// Result is what one worker (or the merged run) produced.
type Result struct {
	Counters     map[string]int64      `json:"counters"`
	Samples      []any                 `json:"samples"`
	Violations   map[string]*Violation `json:"violations"` // by signature: the simplest witness
	ViolCount    map[string]int64      `json:"viol_count"`
	Inconclusive []string              `json:"inconclusive"`
	Notes        []string              `json:"notes"`
	Bounds       map[string]string     `json:"bounds"`
	Exhaustive   bool                  `json:"exhaustive"`
	Outcomes     map[string]int64      `json:"outcomes"` // distinct observed outcome classes
}

func NewResult() *Result {
	return &Result{Counters: map[string]int64{}, Violations: map[string]*Violation{}, ViolCount: map[string]int64{},
		Bounds: map[string]string{}, Exhaustive: true, Outcomes: map[string]int64{}}
}

// Ctx is handed to a property's Run in a worker.
type Ctx struct {
	Prop     *Prop
	Tier     string
	Seed     int64
	Shard    int
	Of       int
	Dir      string // private tmpfs directory
	Deadline time.Time
	R        *Result
	unit     int
	InstrOK  map[string]int
}

func (c *Ctx) Thorough() bool { return c.Tier == "thorough" }

// Mine reports whether the next work unit belongs to this worker (static striping).
func (c *Ctx) Mine() bool {
	u := c.unit
	c.unit++
	return u%c.Of == c.Shard
}

// Expired reports whether the internal deadline passed; the caller stops and
// the run becomes non-exhaustive (never a violation).
func (c *Ctx) Expired() bool {
	if time.Now().After(c.Deadline) {
		if c.R.Exhaustive {
			c.R.Exhaustive = false
			c.R.Notes = append(c.R.Notes, "internal deadline reached; remaining work units skipped")
		}
		return true
	}
	return false
}

func (c *Ctx) Count(k string, n int64) { c.R.Counters[k] += n }
func (c *Ctx) Outcome(k string)        { c.R.Outcomes[k]++ }

func (c *Ctx) Sample(max int, v any) {
	if len(c.R.Samples) < max {
		c.R.Samples = append(c.R.Samples, v)
	}
}

func (c *Ctx) Inconclusive(msg string) {
	for _, m := range c.R.Inconclusive {
		if m == msg {
			return
		}
	}
	c.R.Inconclusive = append(c.R.Inconclusive, msg)
	c.R.Exhaustive = false
}

// Violate records a violation (keeping the simplest witness per signature).
func (c *Ctx) Violate(sig, desc string, weight int, kase any, goTest string) {
	c.R.ViolCount[sig]++
	old := c.R.Violations[sig]
	if old != nil && old.Weight <= weight {
		return
	}
	raw, _ := json.Marshal(kase)
	c.R.Violations[sig] = &Violation{Sig: sig, Desc: desc, Case: raw, GoTest: goTest, Weight: weight}
}

// Prop describes one property check.
type Prop struct {
	ID     string
	Level  string // exploration | fault_enumeration | model_checking
	Run    func(c *Ctx)
	Replay func(c *Ctx, raw json.RawMessage) (violated bool, desc string)
	// Coverage turns merged counters into the level's coverage keys.
	Rule             string
	Assumptions      []string
	Workers          int      // 0 = 16
	NeedsInstr       []string // instrumentation rules that must have matched
	DeathIsViolation bool
	MemKB            int // ulimit -v for workers (0 = 8 GiB)
	ZoneOffsetS      int // != 0: workers and replays of this property run with time.Local set to this fixed offset from UTC
}

var Registry = map[string]*Prop{}

// Children are auxiliary sub-process entry points (`vcheck child <name> args...`).
var Children = map[string]func(args []string){}

func Register(p *Prop) { Registry[p.ID] = p }

// applyZone sets the process's local time zone before anything of the property runs (no goroutine exists yet that
// could read time.Local).  A property whose oracle does not depend on the zone can so be decided in a zone other
// than the UTC every test of the sandbox runs in.
func applyZone(p *Prop) {
	if p != nil && p.ZoneOffsetS != 0 {
		time.Local = time.FixedZone(fmt.Sprintf("VZ%+d", p.ZoneOffsetS), p.ZoneOffsetS)
	}
}

// Guard runs f and converts a panic into (panicked=true, text).
func Guard(f func()) (panicked bool, text string) {
	defer func() {
		if r := recover(); r != nil {
			panicked = true
			text = fmt.Sprint(r)
			st := string(debug.Stack())
			// keep the frames below the panic for signatures
			if i := strings.Index(st, "panic("); i >= 0 {
				st = st[i:]
			}
			if len(st) > 1500 {
				st = st[:1500]
			}
			text += "\n" + st
		}
	}()
	f()
	return
}

// ---------------------------------------------------------------- known findings

type Known struct {
	Findings map[string]string // prop + " " + sig -> text
	Fixed    []string
}

func LoadKnown(path string) *Known {
	k := &Known{Findings: map[string]string{}}
	f, err := os.Open(path)
	if err != nil {
		return k
	}
	defer f.Close()
	sc := bufio.NewScanner(f)
	for sc.Scan() {
		line := strings.TrimSpace(sc.Text())
		if strings.HasPrefix(line, "finding:") {
			fs := strings.Fields(line)
			var prop, sig string
			rest := []string{}
			for _, w := range fs[1:] {
				switch {
				case strings.HasPrefix(w, "property=") && prop == "":
					prop = strings.TrimPrefix(w, "property=")
				case strings.HasPrefix(w, "sig=") && sig == "":
					sig = strings.TrimPrefix(w, "sig=")
				default:
					rest = append(rest, w)
				}
			}
			k.Findings[prop+" "+sig] = strings.Join(rest, " ")
		} else if strings.HasPrefix(line, "fixed:") {
			k.Fixed = append(k.Fixed, line)
		}
	}
	return k
}

// ---------------------------------------------------------------- parent

func envInt(name string, def int64) int64 {
	if v := os.Getenv(name); v != "" {
		if n, err := strconv.ParseInt(v, 10, 64); err == nil {
			return n
		}
	}
	return def
}

// Main dispatches `check`, `worker`, `replay`.
func Main() {
	if len(os.Args) < 2 {
		fmt.Fprintln(os.Stderr, "usage: vcheck check <ID> <tier> | worker ... | replay <file>")
		os.Exit(2)
	}
	switch os.Args[1] {
	case "check":
		os.Exit(parent(os.Args[2], os.Args[3]))
	case "worker":
		worker(os.Args[2:])
	case "replay":
		os.Exit(replay(os.Args[2]))
	case "child":
		if f := Children[os.Args[2]]; f != nil {
			f(os.Args[3:])
			return
		}
		fmt.Fprintln(os.Stderr, "unknown child", os.Args[2])
		os.Exit(2)
	case "list":
		ids := []string{}
		for id := range Registry {
			ids = append(ids, id)
		}
		sort.Strings(ids)
		fmt.Println(strings.Join(ids, " "))
	default:
		fmt.Fprintln(os.Stderr, "unknown subcommand")
		os.Exit(2)
	}
}

func verifDir() string {
	if d := os.Getenv("VERIF_DIR"); d != "" {
		return d
	}
	return "/verif"
}

// outDir is where evidence and replay artefacts go: /verif, unless a mutant / seeded-change evaluation
// redirects them so that the committed evidence always describes the unchanged tree.
func outDir() string {
	if d := os.Getenv("VERIF_OUT_DIR"); d != "" {
		return d
	}
	return verifDir()
}

func loadInstr() map[string]int {
	m := map[string]int{}
	if p := os.Getenv("VERIF_INSTR"); p != "" {
		if b, err := os.ReadFile(p); err == nil {
			var r struct {
				Matched map[string]int `json:"matched"`
			}
			if json.Unmarshal(b, &r) == nil {
				m = r.Matched
			}
		}
	}
	return m
}

func parent(id, tier string) int {
	p := Registry[id]
	if p == nil {
		fmt.Fprintln(os.Stderr, "unknown property", id)
		return 2
	}
	start := time.Now()
	seed := envInt("VERIF_SEED", 1)
	nw := p.Workers
	if nw == 0 {
		nw = 16
	}
	if v := envInt("VERIF_WORKERS", 0); v > 0 {
		nw = int(v)
	}
	scratch := os.Getenv("VERIF_SCRATCH")
	if scratch == "" {
		d, err := os.MkdirTemp("/dev/shm", "vcheck.")
		if err != nil {
			d, _ = os.MkdirTemp("", "vcheck.")
		}
		scratch = d
		defer os.RemoveAll(d)
	}
	deadlineS := int64(540)
	if tier == "thorough" {
		deadlineS = 3300
	}
	deadlineS = envInt("VERIF_DEADLINE_S", deadlineS)
	graceS := envInt("VERIF_GRACE_S", 180) // how long after its deadline a worker may still be finishing its current unit
	if tier == "thorough" {
		graceS = envInt("VERIF_GRACE_S", 600)
	}
	mem := p.MemKB
	if mem == 0 {
		mem = 8 << 20
	}
	self, _ := os.Executable()
	merged := NewResult()
	var mu sync.Mutex
	var wg sync.WaitGroup
	died := []string{}
	for w := 0; w < nw; w++ {
		wg.Add(1)
		go func(w int) {
			defer wg.Done()
			dir := filepath.Join(scratch, fmt.Sprintf("w%d", w))
			os.MkdirAll(dir, 0755)
			out := filepath.Join(dir, "result.json")
			sh := fmt.Sprintf("ulimit -v %d; exec %q worker %s %s %d %d %d %q %d", mem, self, id, tier, w, nw, seed, dir, deadlineS)
			cmd := exec.Command("/bin/sh", "-c", sh)
			tail := &tailBuf{max: 16 << 10}
			cmd.Stderr = io.MultiWriter(os.Stderr, tail)
			cmd.Stdout = cmd.Stderr
			// hard stop: a worker checks its deadline between work units; a unit that never returns (a thread blocked in
			// something the harness does not control) would otherwise keep the check running for ever
			cmd.SysProcAttr = &syscall.SysProcAttr{Setpgid: true}
			stuck := false
			err := cmd.Start()
			if err == nil {
				done := make(chan struct{})
				go func() {
					select {
					case <-done:
					case <-time.After(time.Duration(deadlineS+graceS) * time.Second):
						stuck = true
						syscall.Kill(-cmd.Process.Pid, syscall.SIGKILL)
					}
				}()
				err = cmd.Wait()
				close(done)
			}
			b, rerr := os.ReadFile(out)
			mu.Lock()
			defer mu.Unlock()
			if stuck {
				died = append(died, fmt.Sprintf("worker %d was stopped %d s after its deadline: a work unit never returned (blocked outside the harness's control); what the other workers found is kept", w, graceS))
				return
			}
			if rerr != nil {
				// a worker that died of a Go fatal error (out of memory, stack overflow, concurrent map access) raised
				// INSIDE the code under test did not fail for infrastructure reasons: that is a finding
				if what, where := fatalInCodeUnderTest(tail.String()); what != "" {
					sig := id + "/fatal-error-in-code-under-test/" + what
					merged.ViolCount[sig]++
					merged.Violations[sig] = &Violation{Sig: sig, Desc: fmt.Sprintf("worker %d died: %s\n%s", w, what, where), Weight: 1 << 20}
					return
				}
				died = append(died, fmt.Sprintf("worker %d produced no result (%v)", w, err))
				return
			}
			var r Result
			if json.Unmarshal(b, &r) != nil {
				died = append(died, fmt.Sprintf("worker %d wrote an unreadable result", w))
				return
			}
			merge(merged, &r)
		}(w)
	}
	wg.Wait()
	for _, d := range died {
		if p.DeathIsViolation {
			merged.ViolCount[id+"/worker-died"]++
			merged.Violations[id+"/worker-died"] = &Violation{Sig: id + "/worker-died", Desc: d, Weight: 1 << 20}
		} else {
			merged.Inconclusive = append(merged.Inconclusive, d)
			merged.Exhaustive = false
		}
	}
	return finish(p, tier, seed, merged, time.Since(start).Seconds())
}

func merge(dst, src *Result) {
	for k, v := range src.Counters {
		if strings.HasPrefix(k, "max_") {
			if v > dst.Counters[k] {
				dst.Counters[k] = v
			}
			continue
		}
		dst.Counters[k] += v
	}
	for k, v := range src.Outcomes {
		dst.Outcomes[k] += v
	}
	for k, v := range src.ViolCount {
		dst.ViolCount[k] += v
	}
	for k, v := range src.Violations {
		if o := dst.Violations[k]; o == nil || v.Weight < o.Weight {
			dst.Violations[k] = v
		}
	}
	for _, s := range src.Samples {
		if len(dst.Samples) < 6 {
			dst.Samples = append(dst.Samples, s)
		}
	}
	for _, m := range src.Inconclusive {
		found := false
		for _, o := range dst.Inconclusive {
			found = found || o == m
		}
		if !found {
			dst.Inconclusive = append(dst.Inconclusive, m)
		}
	}
	for _, m := range src.Notes {
		found := false
		for _, o := range dst.Notes {
			found = found || o == m
		}
		if !found {
			dst.Notes = append(dst.Notes, m)
		}
	}
	for k, v := range src.Bounds {
		dst.Bounds[k] = v
	}
	dst.Exhaustive = dst.Exhaustive && src.Exhaustive
}

func finish(p *Prop, tier string, seed int64, r *Result, wall float64) int {
	vd := verifDir()
	known := LoadKnown(filepath.Join(vd, "known_findings.txt"))
	exit := 0
	sigs := []string{}
	for s := range r.Violations {
		sigs = append(sigs, s)
	}
	sort.Strings(sigs)
	knownMatched := []string{}
	newViol := 0
	od := outDir()
	os.MkdirAll(filepath.Join(od, "replays"), 0755)
	for _, s := range sigs {
		v := r.Violations[s]
		if txt, ok := known.Findings[p.ID+" "+s]; ok {
			fmt.Printf("KNOWN-FINDING: property=%s %s sig=%s (%d cases)\n", p.ID, txt, s, r.ViolCount[s])
			knownMatched = append(knownMatched, s)
			continue
		}
		newViol++
		h := sha256.Sum256([]byte(s))
		path := filepath.Join(od, "replays", fmt.Sprintf("%s-%s.json", p.ID, hex.EncodeToString(h[:6])))
		art := map[string]any{"property": p.ID, "sig": s, "desc": v.Desc, "case": v.Case, "go_test": v.GoTest, "cases_with_this_signature": r.ViolCount[s]}
		b, _ := json.MarshalIndent(art, "", " ")
		os.WriteFile(path, b, 0644)
		fmt.Printf("VIOLATION property=%s replay=%s\n", p.ID, path)
		fmt.Printf("  sig=%s cases=%d\n  %s\n", s, r.ViolCount[s], strings.ReplaceAll(v.Desc, "\n", "\n  "))
		exit = 1
	}
	for _, m := range r.Inconclusive {
		fmt.Printf("INCONCLUSIVE: property=%s %s\n", p.ID, m)
	}
	// evidence
	cov := map[string]any{}
	for k, v := range r.Counters {
		cov[k] = v
	}
	if len(r.Samples) == 0 {
		r.Samples = append(r.Samples, "no sample recorded")
	}
	cov["samples"] = r.Samples
	cov["rule"] = p.Rule
	cov["exhaustive"] = r.Exhaustive && len(r.Inconclusive) == 0
	cov["bounds"] = r.Bounds
	cov["distinct_outcomes"] = len(r.Outcomes)
	cov["outcomes"] = r.Outcomes
	cov["notes"] = r.Notes
	cov["inconclusive"] = r.Inconclusive
	cov["known_findings_matched"] = knownMatched
	cov["instrumentation_rules_matched"] = loadInstr()
	if _, ok := cov["evaluations"]; !ok {
		if t, ok := r.Counters["transitions"]; ok {
			cov["evaluations"] = t
		} else {
			cov["evaluations"] = int64(0)
		}
	}
	if _, ok := cov["distinct_nontrivial"]; !ok {
		if t, ok := r.Counters["states"]; ok {
			cov["distinct_nontrivial"] = t
		} else {
			cov["distinct_nontrivial"] = int64(0)
		}
	}
	ev := map[string]any{
		"property_id": p.ID, "tier": tier, "seed": seed, "level": p.Level,
		"coverage": cov, "assumptions": p.Assumptions, "wall_s": wall, "violations": newViol,
	}
	b, _ := json.MarshalIndent(ev, "", " ")
	os.MkdirAll(filepath.Join(od, "evidence"), 0755)
	os.WriteFile(filepath.Join(od, "evidence", p.ID+".json"), b, 0644)
	keys := []string{}
	for k := range r.Counters {
		keys = append(keys, k)
	}
	sort.Strings(keys)
	var sb strings.Builder
	for _, k := range keys {
		fmt.Fprintf(&sb, " %s=%d", k, r.Counters[k])
	}
	fmt.Printf("%s %s: exit=%d exhaustive=%v wall=%.1fs outcomes=%d%s\n", p.ID, tier, exit, cov["exhaustive"], wall, len(r.Outcomes), sb.String())
	return exit
}

type tailBuf struct {
	mu  sync.Mutex
	b   []byte
	max int
}

func (t *tailBuf) Write(p []byte) (int, error) {
	t.mu.Lock()
	defer t.mu.Unlock()
	t.b = append(t.b, p...)
	if len(t.b) > 2*t.max {
		t.b = append([]byte{}, t.b[len(t.b)-t.max:]...)
	}
	return len(p), nil
}

func (t *tailBuf) String() string {
	t.mu.Lock()
	defer t.mu.Unlock()
	return string(t.b)
}

// fatalInCodeUnderTest recognises a Go runtime fatal error whose innermost non-runtime frame belongs to the
// repository (or its page-buffer dependency), i.e. raised by the code under test rather than by the harness.
func fatalInCodeUnderTest(stderr string) (what, where string) {
	i := strings.Index(stderr, "fatal error: ")
	if i < 0 {
		return "", ""
	}
	rest := stderr[i:]
	what = strings.TrimSpace(strings.SplitN(rest[len("fatal error: "):], "\n", 2)[0])
	what = strings.ReplaceAll(what, " ", "-")
	lines := strings.Split(rest, "\n")
	for k, ln := range lines {
		if k == 0 || strings.HasPrefix(ln, "\t") || strings.HasPrefix(ln, "runtime.") || strings.HasPrefix(ln, "goroutine ") || strings.TrimSpace(ln) == "" || strings.HasPrefix(ln, "runtime:") {
			continue
		}
		// first non-runtime frame
		if strings.HasPrefix(ln, "github.com/hnakamur/whispertool") || strings.HasPrefix(ln, "github.com/hnakamur/filebuffer") {
			end := k + 8
			if end > len(lines) {
				end = len(lines)
			}
			return what, strings.Join(lines[k:end], "\n")
		}
		return "", ""
	}
	return "", ""
}

// ---------------------------------------------------------------- worker

func worker(args []string) {
	wstart := time.Now()
	id, tier := args[0], args[1]
	shard, _ := strconv.Atoi(args[2])
	of, _ := strconv.Atoi(args[3])
	seed, _ := strconv.ParseInt(args[4], 10, 64)
	dir := args[5]
	dl, _ := strconv.ParseInt(args[6], 10, 64)
	p := Registry[id]
	applyZone(p)
	c := &Ctx{Prop: p, Tier: tier, Seed: seed, Shard: shard, Of: of, Dir: dir,
		Deadline: time.Now().Add(time.Duration(dl) * time.Second), R: NewResult(), InstrOK: loadInstr()}
	for _, rule := range p.NeedsInstr {
		if c.InstrOK[rule] == 0 {
			c.Inconclusive("instrumentation rule did not match: " + rule)
		}
	}
	if len(c.R.Inconclusive) == 0 {
		func() {
			defer func() {
				if r := recover(); r != nil {
					st := string(debug.Stack())
					if len(st) > 1200 {
						st = st[:1200]
					}
					fmt.Fprintf(os.Stderr, "HARNESS PANIC in %s worker %d: %v\n%s\n", id, shard, r, st)
					c.Inconclusive(fmt.Sprintf("harness panic in worker %d (what it had found so far is kept): %v", shard, r))
				}
			}()
			p.Run(c)
		}()
	}
	c.R.Counters["max_worker_wall_s"] = int64(time.Since(wstart).Seconds())
	b, _ := json.Marshal(c.R)
	os.WriteFile(filepath.Join(dir, "result.json"), b, 0644)
}

func replay(path string) int {
	b, err := os.ReadFile(path)
	if err != nil {
		fmt.Fprintln(os.Stderr, err)
		return 2
	}
	var art struct {
		Property string          `json:"property"`
		Sig      string          `json:"sig"`
		Case     json.RawMessage `json:"case"`
	}
	if err := json.Unmarshal(b, &art); err != nil {
		fmt.Fprintln(os.Stderr, err)
		return 2
	}
	p := Registry[art.Property]
	if p == nil || p.Replay == nil {
		fmt.Fprintln(os.Stderr, "no replay for", art.Property)
		return 2
	}
	applyZone(p)
	d, _ := os.MkdirTemp("/dev/shm", "vreplay.")
	defer os.RemoveAll(d)
	c := &Ctx{Prop: p, Tier: "quick", Of: 1, Dir: d, Deadline: time.Now().Add(10 * time.Minute), R: NewResult(), InstrOK: loadInstr()}
	v, desc := p.Replay(c, art.Case)
	if v {
		fmt.Printf("VIOLATION property=%s replay=%s\n  %s\n", art.Property, path, desc)
		return 1
	}
	fmt.Printf("replay of %s: property held (%s)\n", path, desc)
	return 0
}
